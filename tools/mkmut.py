#!/usr/bin/env python3
"""tools/mkmut.py <out.diff> <repo-relative-file> <old> <new> [<old2> <new2> ...]: build a git-apply-able single-file diff
against /repo's working tree without touching it (exact, unique string replacement)."""
import difflib, sys
out, rel = sys.argv[1], sys.argv[2]
src = open(f"/repo/{rel}").read()
new = src
pairs = sys.argv[3:]
for old, rep in zip(pairs[::2], pairs[1::2]):
    assert new.count(old) == 1, f"pattern occurs {new.count(old)} times: {old!r}"
    new = new.replace(old, rep)
d = difflib.unified_diff(src.splitlines(True), new.splitlines(True), f"a/{rel}", f"b/{rel}")
open(out, "w").write("".join(d))
print("wrote", out)
