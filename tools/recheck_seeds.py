#!/usr/bin/env python3
"""tools/recheck_seeds.py [--only ID[,ID]] [--extra C02,C03] [--jobs N]

Re-runs, for every seeded change under /verif/seeded/<id>/, the quick check of the property it breaks (plus --extra checks)
against a scratch worktree of /repo HEAD with the patch applied (outside /repo and /verif; MZ_REPO), records the verdict in
meta.json["detection"] and prints one table row per change. Worktrees are removed afterwards."""
import concurrent.futures as cf
import json
import os
import shutil
import subprocess
import sys
import tempfile
import time
from pathlib import Path

V = Path(__file__).resolve().parent.parent  # the /verif tree this script belongs to (a vp-run snapshot uses its own checks)


def sh(cmd, **kw):
    return subprocess.run(cmd, shell=True, capture_output=True, text=True, **kw)


def one(sid, checks, nproc):
    d = V / "seeded" / sid
    wt = tempfile.mkdtemp(prefix="mzre.", dir="/var/tmp")
    out = tempfile.mkdtemp(prefix="mzreout.", dir="/var/tmp")
    os.rmdir(wt)
    rec = {}
    try:
        assert sh(f"git -C /repo worktree add --detach {wt} HEAD").returncode == 0
        ap = sh(f"git -C {wt} apply {d / 'patch.diff'}")
        if ap.returncode != 0:
            return sid, dict(error="patch does not apply: " + ap.stderr[-200:])
        for c in checks:
            t = time.time()
            p = subprocess.run(f"cd {V} && /venv/bin/python -m mzcheck run {c} --tier quick", shell=True, capture_output=True, text=True,
                               env=dict(os.environ, MZ_REPO=wt, MZ_OUT_DIR=out, MZ_NPROC=str(nproc)), timeout=5400)
            keys = [l.strip()[4:] for l in p.stdout.splitlines() if l.strip().startswith("key=")]
            rec[c] = dict(rc=p.returncode, keys=keys[:5], wall_s=round(time.time() - t),
                          err=(p.stderr.strip().splitlines() or [""])[-1][:300] if p.returncode not in (0, 1) else "")
    finally:
        sh(f"git -C /repo worktree remove --force {wt}")
        shutil.rmtree(wt, ignore_errors=True)
        shutil.rmtree(out, ignore_errors=True)
    return sid, rec


def apply(path):
    """merge a results file written by an earlier (background) run into /verif/seeded/*/meta.json"""
    R = json.loads(Path(path).read_text())
    for sid, r in sorted(R["results"].items()):
        mp = Path("/verif/seeded") / sid / "meta.json"
        if not mp.exists():
            continue
        meta = json.loads(mp.read_text())
        det = meta.get("detection", {})
        det.update(r)
        meta["detection"] = det
        meta["detection_at"] = R["at"]
        meta["caught_by"] = sorted(c for c, v in det.items() if isinstance(v, dict) and v.get("rc") == 1)
        mp.write_text(json.dumps(meta, indent=1))
        print(sid, meta["caught_by"])


def main():
    only, extra, jobs = None, [], 3
    a = sys.argv[1:]
    if a and a[0] == "--apply":
        return apply(a[1])
    for i, x in enumerate(a):
        if x == "--only":
            only = a[i + 1].split(",")
        if x == "--extra":
            extra = a[i + 1].split(",")
        if x == "--jobs":
            jobs = int(a[i + 1])
    sids = sorted(p.name for p in (V / "seeded").iterdir() if (p / "patch.diff").exists())
    if only:
        sids = [s for s in sids if s in only or s.split("_")[0] in only]
    nproc = max(2, (os.cpu_count() or 4) // jobs)
    head = sh("git -C /repo rev-parse --short HEAD").stdout.strip()
    vhead = sh(f"git -C {V} rev-parse --short HEAD").stdout.strip()
    out = dict(at=dict(repo=head, verif=vhead, when=time.strftime("%Y-%m-%dT%H:%M:%S")), results={})
    with cf.ThreadPoolExecutor(jobs) as ex:
        futs = [ex.submit(one, s, [s.split("_")[0]] + [e for e in extra if e != s.split("_")[0]], nproc) for s in sids]
        for f in cf.as_completed(futs):
            sid, rec = f.result()
            out["results"][sid] = rec
            Path("recheck_results.json").write_text(json.dumps(out, indent=1))
            print(sid, {c: (v.get("rc"), (v.get("keys") or [""])[0][:90]) if isinstance(v, dict) else v for c, v in rec.items()}, flush=True)
    print("results in", Path("recheck_results.json").resolve(), "- merge with: tools/recheck_seeds.py --apply <file>")


main()
