#!/usr/bin/env python3
"""tools/ingest_seed.py <dir with patch.diff demo.py meta.json> [--checks C01,C12] [--no-tests]

Confirms a seeded change independently in a scratch worktree of /repo HEAD (outside /repo and /verif):
  1. demo.py exits 0 on the unchanged tree, 2. patch applies, demo.py exits non-zero with it,
  3. the repository's own suite still passes everything in BASELINE stable_pass (tools/compare_baseline.py),
  4. runs the named checks (default: the property's own) against it with MZ_REPO and records verdict + keys.
Keeps the change under /verif/seeded/<id>/ only if 1-3 hold. Removes the worktree afterwards."""
import json
import os
import shutil
import subprocess
import sys
import tempfile
import time
from pathlib import Path

V = Path("/verif")


def sh(cmd, **kw):
    return subprocess.run(cmd, shell=True, capture_output=True, text=True, **kw)


def main():
    src = Path(sys.argv[1]).resolve()
    sid = src.name
    prop = sid.split("_")[0]
    checks = [prop]
    do_tests = True
    for a in sys.argv[2:]:
        if a.startswith("--checks"):
            checks = a.split("=", 1)[1].split(",")
        if a == "--no-tests":
            do_tests = False
    wt = tempfile.mkdtemp(prefix="mzseed.", dir="/var/tmp")
    out = tempfile.mkdtemp(prefix="mzseedout.", dir="/var/tmp")
    os.rmdir(wt)
    rec = dict(id=sid, property=prop, at=time.strftime("%Y-%m-%dT%H:%M:%S"), repo_head=sh("git -C /repo rev-parse --short HEAD").stdout.strip())
    try:
        assert sh(f"git -C /repo worktree add --detach {wt} HEAD").returncode == 0
        os.makedirs(f"{wt}/_seed/{sid}")
        shutil.copy(src / "demo.py", f"{wt}/_seed/{sid}/demo.py")
        env = dict(os.environ, PYTHONPATH=wt, MPLBACKEND="Agg")
        demo = f"cd {wt} && /venv/bin/python _seed/{sid}/demo.py"
        r0 = subprocess.run(demo, shell=True, capture_output=True, text=True, env=env, timeout=1800)
        rec["demo_without_change"] = r0.returncode
        ap = sh(f"git -C {wt} apply {src / 'patch.diff'}")
        rec["patch_applies"] = ap.returncode == 0
        if not rec["patch_applies"]:
            rec["apply_error"] = ap.stderr[-500:]
        r1 = subprocess.run(demo, shell=True, capture_output=True, text=True, env=env, timeout=1800)
        rec["demo_with_change"] = r1.returncode
        rec["demo_message"] = (r1.stdout + r1.stderr)[-600:]
        ok = rec["patch_applies"] and r0.returncode == 0 and r1.returncode != 0
        if ok and do_tests:
            t = time.time()
            subprocess.run(f"cd {wt} && /venv/bin/python -m pytest -q -p no:cacheprovider --timeout=900 --continue-on-collection-errors "
                           f"--junitxml={out}/junit.xml -n 3 tests > {out}/pytest.log 2>&1", shell=True, env=env, timeout=3600)
            cb = sh(f"python3 {V}/tools/compare_baseline.py {out}/junit.xml")
            rec["tests"] = cb.stdout.strip().splitlines()[0] if cb.stdout else "no output"
            rec["tests_ok"] = cb.returncode == 0
            rec["tests_tail"] = sh(f"tail -1 {out}/pytest.log").stdout.strip()
            rec["tests_wall_s"] = round(time.time() - t)
            ok = ok and rec["tests_ok"]
        rec["confirmed"] = bool(ok)
        verdicts = {}
        if ok:
            for c in checks:
                p = subprocess.run(f"cd {V} && /venv/bin/python -m mzcheck run {c} --tier quick", shell=True, capture_output=True, text=True,
                                   env=dict(os.environ, MZ_REPO=wt, MZ_OUT_DIR=out), timeout=3600)
                keys = [l.strip()[4:] for l in p.stdout.splitlines() if l.strip().startswith("key=")]
                verdicts[c] = dict(rc=p.returncode, keys=keys[:6], summary=(p.stdout.strip().splitlines() or [""])[-1][:300])
        rec["checks"] = verdicts
        rec["caught_by"] = sorted(c for c, v in verdicts.items() if v["rc"] == 1)
        dst = V / "seeded" / sid
        if ok:
            dst.mkdir(parents=True, exist_ok=True)
            shutil.copy(src / "patch.diff", dst / "patch.diff")
            shutil.copy(src / "demo.py", dst / "demo.py")
            meta = {}
            try:
                meta = json.loads((src / "meta.json").read_text())
            except Exception:
                pass
            meta["breaks_property"] = prop
            meta["verified_by_lead"] = rec
            (dst / "meta.json").write_text(json.dumps(meta, indent=1))
        print(json.dumps(rec, indent=1))
    finally:
        sh(f"git -C /repo worktree remove --force {wt}")
        shutil.rmtree(wt, ignore_errors=True)
        shutil.rmtree(out, ignore_errors=True)


main()
