#!/usr/bin/env python3
"""tools/mk_seeder_prompt.py <ID> <DIR> : print the blind seeder prompt for a property (contains only the property text)"""
import json, sys
pid, d = sys.argv[1], sys.argv[2]
for l in open("/verif/properties.jsonl"):
    p = json.loads(l)
    if p["id"] == pid:
        break
t = open("/verif/tools/prompts/" + (sys.argv[3] if len(sys.argv) > 3 else "seeder.md")).read()
anch = "; ".join(f"{m['name']} ({m['where']})" for m in p["anchors"]["mechanism"]) + " | observe at: " + "; ".join(p["anchors"].get("observe_at", []))
print(t.replace("{DIR}", d).replace("{ID}", pid).replace("{TITLE}", p["title"]).replace("{STATEMENT}", p["statement"])
      .replace("{QUANT}", p["quantifier"]["text"]).replace("{WHY}", p["why_tests_cant"]).replace("{ANCHORS}", anch))
