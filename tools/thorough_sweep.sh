#!/bin/bash
# usage: tools/thorough_sweep.sh [PROP ...]  -- run the thorough tier of every (named) check once, print rc, wall and the summary line.
# Meant for `vp run`; outputs go to ./out (MZ_OUT_DIR) so committed evidence is never touched.
props=${@:-$(python3 -c "import json;print(' '.join(c['property_id'] for c in json.load(open('MANIFEST.json'))['checks']))")}
mkdir -p out
for p in $props; do
  s=$(date +%s)
  MZ_OUT_DIR=$PWD/out /venv/bin/python -m mzcheck run $p --tier thorough > out/$p.thorough.log 2>&1
  rc=$?
  echo "== $p rc=$rc wall=$(( $(date +%s) - s ))s :: $(grep -E "^$p tier=" out/$p.thorough.log | cut -c1-300)"
  grep -E "^(VIOLATION|KNOWN-FINDING|HARNESS)" out/$p.thorough.log | cut -c1-300
done
