#!/usr/bin/env python3
"""compare a junit xml of the repo's suite with BASELINE.json: every stable_pass test must still pass"""
import json, sys
import xml.etree.ElementTree as ET

base = json.load(open("/root/.vp/BASELINE.json"))
want = set(base["stable_pass"])
root = ET.parse(sys.argv[1]).getroot()
passed, failed = set(), set()
for tc in root.iter("testcase"):
    name = f"{tc.get('classname')}::{tc.get('name')}"
    bad = any(ch.tag in ("failure", "error") for ch in tc)
    skipped = any(ch.tag == "skipped" for ch in tc)
    (failed if bad else passed if not skipped else set()).add(name)
missing = sorted(want - passed)
print(f"baseline stable_pass={len(want)} passed_now={len(passed)} failed_now={len(failed)} baseline_tests_not_passing={len(missing)}")
for m in missing[:20]:
    print("  NOT PASSING:", m)
newly = sorted(passed - want)
print(f"newly passing (were always-failing): {len(newly)}")
sys.exit(1 if missing else 0)
