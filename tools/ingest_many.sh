#!/bin/bash
# usage: tools/ingest_many.sh <ID> ...   (ingest /tmp/seed/<ID>/_seed/<ID>_k for k=1,2 sequentially; logs in /tmp/ing_<ID>_k.log)
for id in "$@"; do
  for d in /tmp/seed/$id/_seed/${id}_*; do
    [ -f "$d/patch.diff" ] || continue
    k=$(basename $d)
    python3 /verif/tools/ingest_seed.py $d > /tmp/ing_$k.log 2>&1
    echo "$k: $(grep -E '"(confirmed|caught_by)"' -A1 /tmp/ing_$k.log | tr -d '\n ' | cut -c1-200)"
  done
done
