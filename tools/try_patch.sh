#!/bin/bash
# usage: tools/try_patch.sh <patch.diff> <PROP> [<PROP> ...]
# applies the patch to a scratch worktree of /repo (outside /repo and /verif), runs the named checks against it
# (MZ_REPO), prints their verdicts and removes the worktree. Evidence/replays go to a scratch dir, never to /verif.
set -u
patch=$(readlink -f "$1"); shift
tier=${TIER:-quick}
wt=$(mktemp -d /var/tmp/mzmut.XXXXXX)
out=$(mktemp -d /var/tmp/mzout.XXXXXX)
git -C /repo worktree add --detach "$wt" HEAD >/dev/null 2>&1 || { echo "worktree failed"; exit 2; }
if ! git -C "$wt" apply "$patch"; then echo "PATCH DOES NOT APPLY"; git -C /repo worktree remove --force "$wt"; rm -rf "$out"; exit 2; fi
cd /verif
for p in "$@"; do
  MZ_REPO="$wt" MZ_OUT_DIR="$out" timeout ${TIMEOUT:-1500} /venv/bin/python -m mzcheck run "$p" --tier "$tier" > "$out/$p.log" 2>&1
  rc=$?
  echo "== $p rc=$rc"; grep -E "^(VIOLATION|KNOWN-FINDING|HARNESS|  key=|  what=)" "$out/$p.log" | cut -c1-400 | head -12; tail -1 "$out/$p.log" | cut -c1-300
done
git -C /repo worktree remove --force "$wt"; rm -rf "$out" "$wt"
