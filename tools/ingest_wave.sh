#!/bin/bash
# usage: tools/ingest_wave.sh <dir e.g. /tmp/seed4> <ID> ...  (ingest <dir>/<ID>/_seed/<ID>_k sequentially)
root=$1; shift
for id in "$@"; do
  for d in $root/$id/_seed/${id}_*; do
    [ -f "$d/patch.diff" ] || continue
    k=$(basename $d)
    python3 /verif/tools/ingest_seed.py $d > /tmp/ing_$k.log 2>&1
    echo "$k: $(grep -E '"(confirmed|caught_by)"' -A1 /tmp/ing_$k.log | tr -d '\n ' | cut -c1-200)"
  done
done
