#!/bin/bash
# usage: tools/ingest_wave3.sh <ID> ...  (ingest /tmp/seed3/<ID>/_seed/<ID>_k sequentially)
for id in "$@"; do
  for d in /tmp/seed3/$id/_seed/${id}_*; do
    [ -f "$d/patch.diff" ] || continue
    k=$(basename $d)
    python3 /verif/tools/ingest_seed.py $d > /tmp/ing_$k.log 2>&1
    echo "$k: $(grep -E '"(confirmed|caught_by)"' -A1 /tmp/ing_$k.log | tr -d '\n ' | cut -c1-200)"
  done
done
