#!/bin/bash
# usage: tools/seed_sweep.sh [PROP ...]   -- run quick checks under several VERIF_SEED values from fresh processes and compare
# exit codes, evaluation and distinct counts (VERIF_SEED may only permute the order of exploration).
cd /verif
props=${@:-$(python3 -c "import json;print(' '.join(c['property_id'] for c in json.load(open('MANIFEST.json'))['checks']))")}
out=$(mktemp -d /var/tmp/mzsweep.XXXXXX)
bad=0
for p in $props; do
  ref=""
  for s in 0 7 123; do
    line=$(VERIF_SEED=$s MZ_OUT_DIR=$out /venv/bin/python -m mzcheck run $p --tier quick 2>/dev/null | grep -E "^$p tier=")
    rc=${PIPESTATUS[0]}
    sig=$(echo "$line" | sed -E 's/seed=[0-9]+ //; s/wall=[0-9.]+s//')
    echo "$p seed=$s :: $sig"
    if [ -z "$ref" ]; then ref="$sig"; elif [ "$ref" != "$sig" ]; then echo "  MISMATCH for $p"; bad=1; fi
    echo "$line" | grep -q "violations=0" || { echo "  NOT SILENT: $p seed=$s"; bad=1; }
  done
done
rm -rf "$out"
exit $bad
