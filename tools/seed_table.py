#!/usr/bin/env python3
"""tools/seed_table.py : print the markdown table of seeded changes (from /verif/seeded/*/meta.json) for DESIGN.md 11.5"""
import json
from pathlib import Path

rows = []
for d in sorted(Path("/verif/seeded").iterdir()):
    mp = d / "meta.json"
    if not mp.exists():
        continue
    m = json.loads(mp.read_text())
    v = m.get("verified_by_lead", {})
    det = m.get("detection", {})
    first = v.get("checks", {})
    caught_first = sorted(c for c, x in first.items() if x.get("rc") == 1)
    caught_now = sorted(c for c, x in det.items() if isinstance(x, dict) and x.get("rc") == 1)
    key = ""
    for c in caught_now or caught_first:
        ks = (det.get(c) or first.get(c) or {}).get("keys") or []
        if ks:
            key = ks[0]
            break
    summ = (m.get("summary") or "").replace("|", "/").replace("\n", " ")
    need = (m.get("needs_to_manifest") or "").replace("|", "/").replace("\n", " ")
    rows.append((d.name, m.get("site", "").replace("|", "/")[:70], summ[:170], need[:150], ",".join(caught_first) or "missed", ",".join(caught_now) or ("-" if not det else "MISSED"), key[:80]))
print("| id | site | change | needs | at ingestion | final | first key |")
print("|---|---|---|---|---|---|---|")
for r in rows:
    print("| " + " | ".join(r) + " |")
