#!/usr/bin/env python3
"""regenerate /verif/MANIFEST.json from the table below (kept in one place so it stays valid)"""
import json
from pathlib import Path

V = Path(__file__).resolve().parent.parent
PY = "/venv/bin/python"

# id -> (category, technique, text, note, design_ref)
CHECKS = {}


def add(pid, cat, tech, text, note, ref):
    CHECKS[pid] = (cat, tech, text, note, ref)


add("C01", "model_checking",
    "exhaustive enumeration of RNG answer sequences (stateless DFS) and explicit-state BFS over captured program states of the real generators",
    "Every execution of every generator on all grids up to 4x4 (default gen_dfs), the kwargs cross product on <=3x3/3x4, the complete reachable "
    "program-state graph of Wilson and the randomized-stack DFS (states/transitions reported, absorption mass -> termination w.p. 1), and "
    "effective-bit families for percolation are explored on the real code; each terminal is judged by a dict/BFS reference model. Also: every execution on one-cell-wide "
    "grids with a side of 129..200 (300) cells, and every generator on sequences of grid shapes / argument sets one after the other in ONE fresh interpreter (nothing of an earlier call may stick); "
    "a start cell passed as an array the caller overwrites afterwards; scripted Wilson walks that bounce for 1000..30002 (thorough 300002) steps before being released.",
    "Bounded grids (small-scope); RNG primitives answer within range; program state = locals+instruction offsets of library frames.", "5/C01")
add("C12", "model_checking",
    "same execution trees / state graphs as C01, metadata oracle on every terminal + every answer of generate_random_path()",
    "Every terminal of the exhaustively explored generator executions is compared with reference reachability (visited_cells == component of start, "
    "flag <=> connected, tree over visited cells, count bounds against the REQUESTED count of the call, corridor rule) and every endpoint draw on every distinct (maze, meta) is executed, "
    "after the same walls were queried with other metadata (twin history); shape / argument sequences in one fresh interpreter, caller-overwritten start arrays and very long scripted Wilson walks as for C01.",
    "Bounded grids; the documented ValueError/AssertionError for <2-cell components and 1xN grids is accepted.", "5/C12")

add("C19", "model_checking",
    "explicit-state BFS over the program states of the real gen_wilson (complete Markov chain) + exact absorption probabilities",
    "The complete reachable state graph of gen_wilson on 1x2..3x3 (thorough: 2x4, 4x2, 3x4 under a cap) is built from real executions under the "
    "choice oracle; the terminal set must equal the brute-force set of spanning trees and every tree's exact absorption probability must be 1/N "
    "(1e-9), with residual mass < 1e-12. Weighted draws (choice(p=...)) are modelled with their weights. Chains of several grid shapes are also built one after the other in one "
    "fresh interpreter, and with the real PRNG the tree after np.random.seed(s) is checked to be a function of s alone (twice with other RNG use in between, in a forked child) with every tree occurring over the seed range. Seeding layer also on elongated grids 2x4..2x6 and transposes (every spanning tree is drawn for some seed).",
    "Decides uniformity of the algorithm given uniform NumPy primitives, not PRNG quality for every seed; bounded grids.", "5/C19")
add("C09", "exploration",
    "bounded-exhaustive enumeration of all ordered maze pairs of a variant family and of the endpoint coordinate box",
    "All ordered pairs (same object / equal copy / every other member) over a family of mazes of all three kinds and several shapes with one-bit, "
    "one-endpoint, one-solution-cell and metadata variants are compared with ==, != and hash against a fingerprint model; sets/dicts and dataset "
    "equality likewise (incl. degenerate and broadcast-compatible shapes); every start/end in the box reaching beyond both dimensions on square and oblong grids through five constructors; "
    "every sequence of <= 3 (4) observations and in-place changes on one live maze object against a fresh maze of the same structure. Slices of the pair / set tasks again under other interpreter hash seeds.",
    "Family-based (not all mazes); shapes <= 3x3.", "5/C09")
add("C02", "exploration",
    "bounded-exhaustive enumeration of all connection structures x all ordered cell pairs against a reference BFS",
    "Every graph on every grid up to 3x3 (thorough: up to 3x4/4x3, 131072 graphs each) x every ordered (start,end) pair is solved by the real A* "
    "and compared with reference BFS distances: endpoints, adjacency along connections, exact minimal length, ValueError iff disconnected, "
    "one-cell path for start==end; also through SolvedMaze.from_targeted_lattice_maze, on structured mazes up to 20x20, on one- and two-cell-wide grids with a side of 129..300 cells, "
    "and with same-cell-count shapes interleaved in one fresh interpreter (one maze object per graph for all its pairs). Also corridors / two-wide ladders of 1100 (3001) cells and slices of the task lists under other interpreter hash seeds.",
    "Small-scope: larger grids only via structured families.", "5/C02")

add("C08", "model_checking",
    "explicit-state BFS over filter sequences on the real filter implementations, reference-model agreement on every transition",
    "From crafted start datasets (increasing/equal lengths, exact duplicates at first/last/adjacent/non-adjacent positions, near-duplicates at Hamming "
    "distance 1-2, all-failing, single; each with and without per-maze metadata) every sequence of filters up to depth 2 (thorough 3) over an alphabet of all "
    "built-in filters with boundary arguments and custom predicates is executed; each transition is compared with a list-comprehension reference, the "
    "input AND every earlier dataset of the history are checked untouched, provenance and counts are checked; the search is repeated without merging states (every sequence as such); "
    "from_config(cfg with filters) is compared with the hand-applied chain.",
    "State key drops the append-only provenance log (checked per transition); grid 3, <=6 mazes.", "5/C08")

add("C04", "model_checking",
    "explicit-state BFS over histories of RNG / library use with snapshot+restore of all global state; differential oracle against the initial state",
    "Every history up to depth 2 (thorough 3) over 14 operations (draws from and re-seeds of python random / numpy global / numpy Generator / torch, other "
    "config constructions, other generate / from_config calls, shuffling tokenisations, generating the observed config itself, the caller being a "
    "multiprocessing child) is executed; in every distinct global state every observed configuration (all generators x kwargs x seeds, endpoint options, "
    "filters) is generated and must be bit-identical to the generation from the initial state; from_config(no cache) must equal generate + reference "
    "filters and leave the cfg unchanged (generate too); fingerprints are recomputed in fresh interpreters with PYTHONHASHSEED in {0,1,2,4242,random}; every observed configuration is also "
    "generated alone in a fresh interpreter and after every history over its one-field neighbours x {construct, generate, from_config}, each history in its own fork of a pristine interpreter. Ladders beyond the small scope: grid_n 2..32 (64) for every generator, n_mazes 1..130 (1002), seeds around 2^31 / 2^32 / 2^63 and negative - generate, draw from every RNG, generate again, from_config: same outcome.",
    "Global state = the RNGs and module globals listed in the evidence; grid 3-4, n_mazes 3-6.", "5/C04")
add("C14", "exploration",
    "bounded-exhaustive enumeration of all 4096 vocabulary positions, all single/pair/triple token and id sequences over boundary alphabets, all unknown-token/id "
    "placements and all 150 legacy tokenizers against a literal reference layout pinned by SHA-256",
    "Every vocabulary position against the literally re-stated block layout (and a pinned SHA-256), VOCAB_TOKEN_TO_INDEX inverse, every single id/token, 64^2 pairs "
    "and 16^3 triples (320^2 / 48^3 thorough) through all encode/decode forms, unknown tokens/ids at every position, all 1225 (n<m) corner-first prefix pairs, "
    "3 modes x max_grid_size 1..50 legacy vocabularies (duplicate-free, inverse map, row-major, prefix), also built in descending / zigzag order and after every access path of the "
    "special-token tables in fresh interpreters; the layout is judged again after every task.",
    "Longer sequences rely on the element-wise structure of encode/decode.", "5/C14")
add("C16", "exploration",
    "bounded-exhaustive enumeration of all member-length vectors, each member on its own grid size, every index, against list concatenation by object identity",
    "All length vectors in {0..3}^<=4 (thorough {0..4}^<=5, 3905 vectors) incl. every zero pattern x 4 config constructions; every valid index checked by identity "
    "against the concatenation (plus i=len), mazes / dataset_lengths / dataset_cum_lengths / cfg.n_mazes agreement before and after update_self_config; every sequence of <= 3 observations "
    "over 10 kinds (incl. all ordered index pairs) on fresh collections. Slices of the tasks again under other interpreter hash seeds.",
    "Members hold small fixed mazes; negative / numpy indices not covered.", "5/C16")

add("C03", "model_checking",
    "explicit-state exploration of generate(cfg) under the RNG choice oracle + exhaustive task->worker schedule enumeration over a virtual multiprocessing pool validated against real pools",
    "Layer 1: the complete program-state graph of MazeDataset.generate(cfg) with one item (generator choices x endpoint choices) for generators x kwargs x a pairwise-covering "
    "(thorough: full) set of the 200 endpoint-option sets, and every answer of generate_random_path for all 200 option sets on every distinct generated maze; each item is judged "
    "against reference BFS (ends, walls, no repeat, shortest, option compliance; documented ValueError only when the reference says no admissible endpoints). Layer 2: counts for "
    "n_mazes in {0,1,2,3,5} with <=1 deviation plus real-PRNG seeds. Layer 3: all K^n schedules (K<=3, n<=4; thorough K<=4, n<=5) of a virtual pool bound into the library x 3 prior "
    "histories x 3 worker-random seedings (+ endpoint options / generator arguments through the pool, and after generations with other options); real multiprocessing pools in fresh "
    "interpreters must reproduce some enumerated schedule (numpy-only generators). Every 3x3 graph as a percolation output x every endpoint answer; dataset counts 129 / 257.",
    "Pool model assumptions are listed in the evidence; grids 2-3 (4 thorough); OS scheduling itself is not controlled.", "5/C03")
add("C11", "fault_enumeration",
    "exhaustive enumeration of crash images from the recorded file-API write log of a real save, truncations, single-byte corruptions and foreign cache files",
    "A real from_config save is recorded at the file API (every write with offset, incl. zip header rewrites; the log must reproduce the file byte for byte). For every prefix of the "
    "log with the last write torn, every truncation offset (dense stride quick, every byte thorough), single-byte corruptions, appended garbage, missing and empty files, the real "
    "from_config must return exactly a fresh generation's mazes and leave a loadable, equal file; for all ordered pairs of an 11-member one-field-different config family the "
    "foreign file (full and minimal format) must raise or yield exactly the requested data (maze count exempt); the request after every damaged-image request must be answered alike; "
    "explicit-state BFS over the cache-slot content x 16 events (all load/save flag combinations); every sequence of <= 3 (4) requests / in-place edits on one live config object.",
    "Crash = prefix of the application's writes (no reordering below the file API); media faults = single-byte corruptions only.", "5/C11")
add("C13", "exploration",
    "bounded-exhaustive enumeration of every connection structure up to 3x3 x every cell / ordered cell pair / candidate path / solution, and every RNG answer of as_adj_list up to 4 "
    "connections, against a dict-of-sets adjacency",
    "Every graph of all grids up to 3x3 (thorough: 2x4/4x2 fully, 3x4/4x3 for the cheap queries, structured mazes to 15x15) x every cell, ordered pair, candidate path (valid, broken, "
    "out of bounds, empty) and solution for thirteen query functions incl. adjacency-list round trips under all shuffle answers (bounded family above 4 connections) and the "
    "fork / path-following partition; same-cell-count shapes interleaved in one fresh interpreter; one live maze whose connection array is rewritten in place, battery after every rewrite. Candidate paths of every length 1..300 (1200, stride to 6000) with broken variants at first / middle / last position; walks as solutions for the forking rule; slices under other hash seeds.",
    "get_connected_component without metadata only on connected graphs; from_adj_list only where the highest row and column index occur; lattice_max_degrees(1) observed, not judged.", "5/C13")
add("C20", "exploration",
    "bounded-exhaustive enumeration of graphs x unit lengths x cell values for the image builder and of complete Agg plots / path overlays, pixels and artist coordinates read back",
    "_lattice_maze_to_img on every graph up to 3x3 x unit_length {3,4,5,14} x with/without cell values; complete MazePlot(...).plot() on all of G(2,2) x kinds, all 192 3x3 trees x 4 "
    "endpoint pairs, structured 5x5/8x8/4x7, and every simple lattice path <= 4 cells as true / predicted path; block/strip pixels, rendered wall colour, ax.images array, line and "
    "quiver coordinates and the ASCII export are compared with the reference adjacency; every sequence of <= 3 calls over 7 kinds on one MazePlot, then plot; solved mazes with non-shortest stored solutions.",
    "With cell values crossing pixels and the top/left frame are not judged; ticks, labels, colours out of scope.", "5/C20")

add("C05", "exploration",
    "bounded-exhaustive enumeration of (dataset, storage format / threshold, transport) triples and of collection cases, each written and read back on the real implementation",
    "5 generators x grids 2-6 x n in {1,2,3,5} and every solution-length-class assignment over {1,2,3,full} for n<=3 (n<=4 thorough) plus 13 n=5 patterns, x 3 metadata modes x "
    "{full, minimal, minimal_soln_cat, serialize() under 5 thresholds} x {in-memory, ZANJ file}; collections of 1-3 members incl. empty ones x thresholds x 3 config wirings; every "
    "case compared maze by maze, cfg and collected-metadata counter with a pre-serialisation snapshot; solution lengths across 127/128/255/256; chains of <= 3 serialisation steps; "
    "every sequence of <= 4 steps over serialise-and-keep / load / write-later for two same-sized datasets. Datasets of every size 1..130 and around 256 / 500 / 512 / 1000 / 1024 / 1200 / 2048 (4096, 10000) with per-maze distinct content under configurations with long float arguments.",
    "Grids <= 6, n <= 5; partial per-maze metadata, threshold -1 and grids > 127 out of bound; the documented in-place collect_generation_meta provenance entry is tolerated.", "5/C05")
add("C15", "exploration",
    "bounded-exhaustive enumeration of the real all_instances / get_all_tokenizers output (element families, a 72-slice partition of the whole 5,878,656-tokenizer space, stars/boxes, "
    "un-sliced pass in thorough) compared as a configuration multiset with an explicit cartesian-product reference",
    "quick: full-space structure (all 5,878,656 configurations exactly once, by slices) + ~47k distinct configurations for names / hashes / equal copies / legacy / serialize-load / ZANJ; "
    "thorough: names, hashes, equal-copy and legacy on all 5,878,656, un-sliced get_all_tokenizers, 527k serialize/load, 5.7k ZANJ files; hashes recomputed in 5 PYTHONHASHSEED children. "
    "Use histories on live tokenizers (<= 2-3 uses / observations against a never-used twin); the sampling helpers must leave the cached enumeration intact (all orders).",
    "save/load not full-space; configurations read via vars(); cross-process uniqueness via 64-bit digests.", "5/C15")
add("C18", "exploration",
    "bounded-exhaustive enumeration of the configuration field lattice (full cross product / Hamming ball), all one-field-different pairs and 5 PYTHONHASHSEED child interpreters "
    "against a literal reference (sha256 of the JSON text, file-name composition, type-strict field comparison)",
    "Every config of the stated lattice (25 286 thorough / 2 362 quick, + 156 collection configs) is serialized, hashed, named and reloaded directly and through JSON text; every "
    "single-field pair and all configs pairwise have distinct hashes; hashes and file names identical in 5 interpreters with different hash seeds; every sequence of <= 3 (4) observations / "
    "in-place changes on one live config against a fresh config of the same fields.",
    "Representative values per field; tuples nested inside filter args only judged modulo list/tuple on the JSON path; n_mazes excluded from ==/diff by the library.", "5/C18")

add("C06", "exploration",
    "bounded-exhaustive enumeration of all element-level tokenizer programs (9 coord x 216 adjacency, 9 x 1008 path) over small maze sets, covering full tokenizers over all small inputs, "
    "and every RNG answer sequence of the shuffles (<= 1 deviation above 2x2), each emitted stream decoded by an independent grammar decoder and compared with the reference model",
    "Region sweep: all 1 944 adjacency and 9 072 path programs from the library's own all_instances on every 2x2 graph / solved maze, a 3x3 family, 11x11, 17x17 corridor and (thorough) "
    "50x50 mazes; input sweep: pairwise-covering full tokenizers x all mazes of all kinds on 2x2, 2x3, 3x3 trees and cyclic graphs; whole-prompt sweep: both sequencers x 3 coord "
    "tokenizers x covering elements x three kinds. Every stream: vocabulary membership, region delimiters once and in order, decoded edge multiset == selected edge set with correct "
    "labels, origin/target, path steps (coords, cardinal, relative, distance) == reference step rule. 13x13 / 16x16 mazes; one stored solution over every maze that contains it. Walks (cells repeated) as stored solutions; adjacency sweeps on 24x24 (33x33, 50x50) under scripted non-identity shuffle / flip policies.",
    "The product programs x inputs is not claimed; shuffle answers complete only on 2x2; non-square mazes with AllLatticeEdges are rejected by the library (counted). One known finding (Distance gap > 255).", "5/C06")
add("C07", "exploration",
    "bounded-exhaustive enumeration of mazes (all admissible graphs <= 3x3, every gen_dfs output on 4x4, structured 11/12/20) x kinds x 3 legacy modes x max_grid_size x modular equivalents "
    "x input forms x shuffle answers, round trip and legacy-vs-modular agreement judged on every one",
    "cls.from_tokens(m.as_tokens(t), t) for list and joined-string input must return the same kind with identical bits, start, end and solution; legacy and from_legacy modular tokens must "
    "agree outside the adjacency region and as multisets of unordered edges inside; MazeDataset.as_tokens(t, limit, join) must equal per-maze tokenization in order under the same RNG answers "
    "for limit in {None,0,1,n,n+1} x join in {F,T}, and for every ordered pair of such calls on one fresh dataset object.",
    "Shuffle answers complete on 2x2, identity + bounded families elsewhere; grids 2,3,4,11,12,20.", "5/C07")
add("C10", "exploration",
    "bounded-exhaustive enumeration of every connection structure up to 3x3 (subset on 3x3 in quick) x kinds x every ordered endpoint pair x every shortest path x 4 flag combinations x "
    "{pixels, ASCII}, compared pixel by pixel with a reference raster and read back",
    "Every picture must equal the reference raster (size, border, cells, between-pixels, endpoints, solution) and the ASCII text the same picture character for character; from_pixels / "
    "from_ascii of the full-flags picture must return the same kind, bits, start, end and ordered solution for start != end with a shortest path; structured grids 4x4, 3x5, 5x3, 6x6 "
    "(12x12, 11x12, 12x11 in both tiers); same-cell-count shapes rendered interleaved in one fresh interpreter in 3 orders; the array handed to a reader is unchanged afterwards and a second reading gives the same maze; a slice of the tasks again under other interpreter hash seeds.",
    "(show_endpoints=False, show_solution=True) may be rejected (documented); larger grids by structured family only.", "5/C10")
add("C17", "exploration",
    "bounded-exhaustive enumeration of solved mazes (every graph <= 2x3/3x2 x every simple path; 3x3 family x all pairs x all shortest paths; structured 5x5, 4x6) x all 8 option "
    "combinations through process_maze_rasterized_input_target, and of dataset triples x index lists through RasterizedMazeDataset, per-pixel reference comparison",
    "Input image == reference raster with the path hidden and endpoints kept; target == wall except solution pixels (open) with endpoints coloured or opened per option; isolated-pixel "
    "removal and pixel extension against literal reference implementations; ds[i], get_batch(idxs) for 40 index lists per dataset (items re-read afterwards in another order) and "
    "from_base_MazeDataset against per-item stacking; same-cell-count shapes interleaved in one fresh interpreter; the small spaces again in worker pools started under two other interpreter hash seeds.",
    "Grids above 3x3 by structured family; start == end accepts either endpoint colour.", "5/C17")

PLANNED = {}


def main():
    props = [json.loads(l) for l in (V / "properties.jsonl").read_text().splitlines() if l.strip()]
    checks, na = [], []
    for p in props:
        pid = p["id"]
        if pid in CHECKS and (V / "mzcheck" / "checks" / f"{pid.lower()}.py").exists():
            cat, tech, text, note, ref = CHECKS[pid]
            checks.append(dict(
                property_id=pid,
                quick_cmd=f"{PY} -m mzcheck run {pid} --tier quick",
                thorough_cmd=f"{PY} -m mzcheck run {pid} --tier thorough",
                evidence_file=f"/verif/evidence/{pid}.json",
                replay_cmd_template=f"{PY} -m mzcheck replay {{path}}",
                engine="mzcheck",
                level_claimed=dict(category=cat, text=text, design_ref=f"DESIGN.md section {ref}"),
                level_note=note, technique=tech))
        else:
            na.append(dict(property_id=pid, reason=PLANNED.get(pid, "bounded-exhaustive check planned in DESIGN.md section 5 but not built yet; not claimed until it runs")))
    man = dict(
        version=1,
        setup_cmd=f"{PY} -m mzcheck selftest",
        hooks=dict(guard="MAZE_DATASET_VERIF", enable="no hooks: interception is by rebinding module globals from outside and frame inspection",
                   baseline_off_cmd="cd /repo && /venv/bin/python -m pytest -ra -q -p no:cacheprovider --timeout=900 --continue-on-collection-errors",
                   source_commits=[], add_only=True),
        engines=[dict(name="mzcheck", path="/verif/mzcheck", serves_properties=[c["property_id"] for c in checks],
                      kind_free_text="hand-written explicit-state / stateless explorer over the real Python implementation (choice oracle for all RNG draws, "
                                     "bounded-exhaustive input spaces, op-sequence BFS, write-log fault enumeration, virtual-pool schedule enumeration)")],
        checks=checks,
        notes="All checks import maze_dataset from /repo's working tree (editable install; asserted at start). VERIF_SEED only permutes exploration order. "
              "Exit 3 = harness error. known_findings.json lists genuine defects recorded or fixed.",
        not_applicable=na)
    (V / "MANIFEST.json").write_text(json.dumps(man, indent=1) + "\n")
    import jsonschema
    jsonschema.validate(man, json.loads(Path("/root/.vp/MANIFEST.schema.json").read_text()))
    print("MANIFEST ok:", len(checks), "claimed,", len(na), "not_applicable")


main()
