"""setup_cmd: offline self-test of the framework (imports, shim install/uninstall, a 2x2 smoke exploration,
evidence-schema validation)."""
import json
import sys
from pathlib import Path


def main() -> int:
    from . import runner

    root = runner.bind_repo()
    import random as real_random

    import numpy as np

    from . import explore, refmodel as R
    from .choice import owned_rng
    import maze_dataset.generation.generators as G

    assert G.random is real_random
    outs = set()
    with owned_rng():
        assert G.random is not real_random
        st = explore.explore_stateless(lambda: G.LatticeMazeGenerators.gen_dfs(np.array((2, 2))),
                                       lambda ex: outs.add(R.bits_of(ex.out.connection_list)))
    assert G.random is real_random and G.np is np
    assert outs <= set(R.trees(2, 2)) and len(outs) == 2 and st['executions'] == 2, (outs, R.trees(2, 2))
    assert [len(R.trees(*s)) for s in ((2, 2), (2, 3), (3, 3))] == [4, 15, 192]
    assert [R.matrix_tree_count(*s) for s in ((2, 2), (2, 3), (3, 3), (3, 4))] == [4, 15, 192, 2415]
    man = json.loads((runner.VERIF / "MANIFEST.json").read_text())
    props = [json.loads(l)["id"] for l in (runner.VERIF / "properties.jsonl").read_text().splitlines() if l.strip()]
    claimed = [c["property_id"] for c in man["checks"]]
    na = [c["property_id"] for c in man.get("not_applicable", [])]
    assert sorted(claimed + na) == sorted(props), "MANIFEST must list every property exactly once"
    print(f"selftest ok: repo={root} gen_dfs 2x2 executions={st['executions']} claimed={len(claimed)} not_applicable={len(na)}")
    return 0
