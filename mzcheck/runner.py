"""Runner: tiers, seeds, parallel fan-out, violations / known findings / replays, evidence."""

from __future__ import annotations

import fnmatch
import hashlib
import importlib
import json
import os
import random
import subprocess
import sys
import time
import traceback
from pathlib import Path

VERIF = Path(__file__).resolve().parent.parent
_OUT = Path(os.environ["MZ_OUT_DIR"]) if os.environ.get("MZ_OUT_DIR") else VERIF  # mutation driver only
EVIDENCE_DIR = _OUT / "evidence"
REPLAY_DIR = _OUT / "replays"
KNOWN_FINDINGS = VERIF / "known_findings.json"

LEVELS = {
    "C01": "model_checking", "C02": "exploration", "C03": "model_checking", "C04": "model_checking",
    "C05": "exploration", "C06": "exploration", "C07": "exploration", "C08": "model_checking",
    "C09": "exploration", "C10": "exploration", "C11": "fault_enumeration", "C12": "model_checking",
    "C13": "exploration", "C14": "exploration", "C15": "exploration", "C16": "exploration",
    "C17": "exploration", "C18": "exploration", "C19": "model_checking", "C20": "exploration",
}

MAX_REPORTED = 5  # distinct violation keys written out per run


def repo_root() -> Path:
    return Path(os.environ.get("MZ_REPO", "/repo")).resolve()


def bind_repo():
    """make `import maze_dataset` resolve to the working tree under test and assert it"""
    root = repo_root()
    if str(root) not in sys.path[:1]:
        sys.path.insert(0, str(root))
    os.environ.setdefault("MPLBACKEND", "Agg")
    os.environ.setdefault("OMP_NUM_THREADS", "1")
    os.environ.setdefault("MKL_NUM_THREADS", "1")
    import warnings

    warnings.filterwarnings("ignore")
    import maze_dataset  # noqa: F401

    got = Path(maze_dataset.__file__).resolve()
    if root not in got.parents:
        raise SystemExit(f"HARNESS: maze_dataset imported from {got}, expected under {root}")
    try:
        import torch

        torch.set_num_threads(1)
    except Exception:
        pass
    return root


def digest(obj) -> str:
    if isinstance(obj, bytes):
        b = obj
    else:
        b = repr(obj).encode()
    return hashlib.blake2b(b, digest_size=8).hexdigest()


def jsonable(o):
    import numpy as np

    if isinstance(o, np.ndarray):
        return o.tolist()
    if isinstance(o, (np.integer,)):
        return int(o)
    if isinstance(o, (np.floating,)):
        return float(o)
    if isinstance(o, (np.bool_,)):
        return bool(o)
    if isinstance(o, dict):
        return {str(k): jsonable(v) for k, v in o.items()}
    if isinstance(o, (list, tuple)):
        return [jsonable(x) for x in o]
    if isinstance(o, (set, frozenset)):
        return sorted((jsonable(x) for x in o), key=repr)
    if isinstance(o, (str, int, float, bool)) or o is None:
        return o
    if isinstance(o, bytes):
        return o.hex()
    return repr(o)


class Result:
    """what one worker task (or the serial body of a check) reports back"""

    def __init__(self):
        self.evaluations = 0
        self.distinct: set[str] = set()
        self.fails: list[dict] = []
        self.samples: list = []
        self.counters: dict[str, int] = {}
        self.sets: dict[str, set] = {}
        self.fail_keys: set[str] = set()

    def ev(self, n=1):
        self.evaluations += n

    def nontrivial(self, obj):
        self.distinct.add(obj if isinstance(obj, str) and len(obj) == 16 else digest(obj))

    def count(self, name, n=1):
        self.counters[name] = self.counters.get(name, 0) + n

    def add(self, name, item):
        self.sets.setdefault(name, set()).add(item)

    def sample(self, s, cap=4):
        if len(self.samples) < cap:
            self.samples.append(jsonable(s))

    def fail(self, key: str, what: str, replay: dict):
        """record a property violation. `key` names call site + input class (known-findings key)"""
        self.count("violating_cases")
        if key in self.fail_keys:
            return
        self.fail_keys.add(key)
        if len(self.fails) < 50:
            self.fails.append(dict(key=key, what=what, replay=jsonable(replay)))

    def pack(self):
        return dict(evaluations=self.evaluations, distinct=sorted(self.distinct), fails=self.fails,
                    samples=self.samples, counters=self.counters,
                    sets={k: sorted(v, key=repr) for k, v in self.sets.items()})

    def merge(self, d: dict):
        self.evaluations += d["evaluations"]
        self.distinct.update(d["distinct"])
        for f in d["fails"]:
            if f["key"] not in self.fail_keys:
                self.fail_keys.add(f["key"])
                self.fails.append(f)
        for s in d["samples"]:
            if len(self.samples) < 6:
                self.samples.append(s)
        for k, v in d["counters"].items():
            self.counters[k] = self.counters.get(k, 0) + v
        for k, v in d["sets"].items():
            self.sets.setdefault(k, set()).update(tuple(x) if isinstance(x, list) else x for x in v)


# ------------------------------------------------------------------ worker side
def _worker_init(env):
    os.environ.update(env)
    # the library keys RNG seeding on multiprocessing.current_process()._identity (maze_dataset.py:_maze_gen_init_worker);
    # our workers must look like an ordinary top-level process, otherwise results differ from a replay in a fresh process
    import multiprocessing

    multiprocessing.current_process()._identity = ()
    bind_repo()


def _worker_call(args):
    modname, funcname, task = args
    try:
        mod = importlib.import_module(modname)
        res = Result()
        getattr(mod, funcname)(task, res)
        for f in res.fails:
            # fallback replay unit: the whole worker task (a failure that depends on what the same task did before - something
            # the library remembered - does not show when the single case is re-run alone)
            f["task"] = [modname, funcname, jsonable(task)]
            if os.environ.get("PYTHONHASHSEED", "0") != "0":
                f["hashseed"] = os.environ["PYTHONHASHSEED"]  # found in an interpreter with this hash seed: replay there
        return res.pack()
    except BaseException as e:  # harness failure inside a worker: surface loudly
        return dict(harness_error=f"{type(e).__name__}: {e}\n{traceback.format_exc()}", task=repr(task)[:300])


class Ctx:
    def __init__(self, prop: str, tier: str, seed: int):
        self.prop, self.tier, self.seed = prop, tier, seed
        self.res = Result()
        self.t0 = time.time()
        self.coverage: dict = {}
        self.assumptions: list[str] = []
        self.exhaustive: bool | None = None
        self.rule = ""
        self.capped = False
        self.rng = random.Random(seed)  # ONLY for ordering of exploration

    @property
    def quick(self):
        return self.tier == "quick"

    def shuffled(self, items):
        items = list(items)
        self.rng.shuffle(items)
        return items

    def pmap(self, modname: str, funcname: str, tasks, nproc: int | None = None, chunksize=1, fresh=False, hashseed: str | None = None):
        """run tasks in spawned worker processes, merge their Results into self.res.
        fresh=True: every task gets its own new interpreter (nothing the library cached for another task is visible)"""
        tasks = self.shuffled(tasks)
        if not tasks:
            return
        nproc = nproc or min(len(tasks), int(os.environ.get("MZ_NPROC", os.cpu_count() or 4)))
        if (nproc <= 1 and not fresh and hashseed is None) or os.environ.get("MZ_SERIAL"):
            for t in tasks:
                d = _worker_call((modname, funcname, t))
                self._merge(d)
            return
        import multiprocessing as mp

        ctx = mp.get_context("spawn")
        env = {k: os.environ[k] for k in ("MZ_REPO", "PYTHONHASHSEED", "MPLBACKEND", "OMP_NUM_THREADS",
                                          "MKL_NUM_THREADS", "VERIF_SEED", "VERIF_TIER") if k in os.environ}
        # hashseed: the workers of this call are interpreters started with another PYTHONHASHSEED (iteration order of sets of strings)
        old_hs = os.environ.get("PYTHONHASHSEED")
        if hashseed is not None:
            os.environ["PYTHONHASHSEED"] = str(hashseed)
            env = dict(env, PYTHONHASHSEED=str(hashseed))
        try:
            with ctx.Pool(max(1, nproc), initializer=_worker_init, initargs=(env,), maxtasksperchild=1 if fresh else None) as pool:
                it = pool.imap_unordered(_worker_call, [(modname, funcname, t) for t in tasks], chunksize)
                # watchdog: multiprocessing.Pool waits for ever for the result of a task whose worker was killed (e.g. by the kernel's
                # out-of-memory killer). A worker that disappears (its pid leaves the pool although workers are never retired), or no
                # result at all for MZ_STALL_S seconds, is a loud harness error (exit 3) instead of a hang.
                pids0 = {w.pid for w in pool._pool} if not fresh else None
                stall, last = float(os.environ.get("MZ_STALL_S", 7200)), time.time()
                while True:
                    try:
                        d = it.next(timeout=20)
                    except StopIteration:
                        break
                    except mp.TimeoutError:
                        gone = pids0 is not None and not pids0 <= {w.pid for w in pool._pool}
                        if gone or time.time() - last > stall:
                            print(f"HARNESS-ERROR: {'a worker process died (killed?)' if gone else f'no result for {stall:.0f}s'} while running "
                                  f"{modname}.{funcname}; results so far are incomplete", file=sys.stderr)
                            pool.terminate()
                            raise SystemExit(3)
                        continue
                    last = time.time()
                    self._merge(d)
        finally:
            if hashseed is not None:
                if old_hs is None:
                    os.environ.pop("PYTHONHASHSEED", None)
                else:
                    os.environ["PYTHONHASHSEED"] = old_hs

    def _merge(self, d):
        if "harness_error" in d:
            print("HARNESS-ERROR in worker:", d["harness_error"], "task:", d.get("task"), file=sys.stderr)
            raise SystemExit(3)
        self.res.merge(d)


# ------------------------------------------------------------------ known findings
def load_known():
    if KNOWN_FINDINGS.exists():
        return json.loads(KNOWN_FINDINGS.read_text())["findings"]
    return []


def match_known(prop, key, known):
    for f in known:
        if f["property"] == prop and f.get("status") == "known" and fnmatch.fnmatchcase(key, f["key"]):
            return f
    return None


# ------------------------------------------------------------------ main entry
def check_module(prop):
    return importlib.import_module(f"mzcheck.checks.{prop.lower()}")


def run_check(prop: str, tier: str, seed: int) -> int:
    bind_repo()
    mod = check_module(prop)
    ctx = Ctx(prop, tier, seed)
    try:
        mod.run(ctx)
    except SystemExit:
        raise
    except BaseException as e:
        print(f"HARNESS-ERROR {prop}: {type(e).__name__}: {e}", file=sys.stderr)
        traceback.print_exc()
        return 3
    wall = time.time() - ctx.t0
    known = load_known()
    res = ctx.res
    violations, knowns = [], []
    for f in sorted(res.fails, key=lambda f: f["key"]):
        kf = match_known(prop, f["key"], known)
        (knowns if kf else violations).append((f, kf))
    printed = set()
    for f, kf in knowns:
        if kf["key"] not in printed:
            printed.add(kf["key"])
            print(f"KNOWN-FINDING: property={prop} {kf['what']} [key={kf['key']}]")
    rc = 0
    REPLAY_DIR.mkdir(exist_ok=True, parents=True)
    confirmed = 0
    unconfirmed = 0
    # confirmation order: round-robin over call sites (first two key components), so that one site whose failures do not replay
    # (e.g. cases poisoned by what a reused worker did before) cannot use up all attempts before another site is tried
    groups: dict = {}
    for f, kf in violations:
        groups.setdefault("|".join(f["key"].split("|")[:2]), []).append((f, kf))
    ordered = []
    while any(groups.values()):
        for g in list(groups):
            if groups[g]:
                ordered.append(groups[g].pop(0))
    attempts = 0
    for f, _ in ordered:
        if confirmed >= MAX_REPORTED or attempts >= 40:
            break
        attempts += 1
        path = REPLAY_DIR / f"{prop}-{digest(f['key'])}.json"
        path.write_text(json.dumps(dict(property=prop, key=f["key"], what=f["what"], replay=f["replay"], **({"hashseed": f["hashseed"]} if f.get("hashseed") else {})),
                                   indent=1))
        # trust-before-report: the recorded case must fail again, twice, in a fresh process
        outcomes = []
        if hasattr(mod, "replay") and not os.environ.get("MZ_NO_CONFIRM"):
            for _ in range(2):
                p = subprocess.run([sys.executable, "-m", "mzcheck", "replay", str(path)], cwd=str(VERIF),
                                   capture_output=True, text=True, env=dict(os.environ))
                outcomes.append(p.returncode)
            if outcomes != [1, 1] and f.get("task"):
                # the single case passes alone: re-run the whole task that found it, in a fresh process, twice
                path.write_text(json.dumps(dict(property=prop, key=f["key"], what=f["what"], replay=f["replay"], replay_mode="task", task=f["task"],
                                                **({"hashseed": f["hashseed"]} if f.get("hashseed") else {})), indent=1))
                outcomes = []
                for _ in range(2):
                    p = subprocess.run([sys.executable, "-m", "mzcheck", "replay", str(path)], cwd=str(VERIF),
                                       capture_output=True, text=True, env=dict(os.environ))
                    outcomes.append(p.returncode)
                if outcomes == [1, 1]:
                    f["what"] = "(shows only after the earlier cases of the same task ran in the same process; replay re-runs the task) " + f["what"]
            if outcomes != [1, 1]:
                # not believed and not reported as a violation; the run ends as a harness error unless another violation of this
                # run does reproduce (a confirmed violation stands on its own replay)
                print(f"HARNESS-ERROR NONDETERMINISM: violation {f['key']} did not reproduce on replay "
                      f"(exit codes {outcomes}); {f['what'][:400]}", file=sys.stderr)
                unconfirmed += 1
                path.unlink(missing_ok=True)
                continue
        confirmed += 1
        print(f"VIOLATION property={prop} replay={path}")
        print(f"  key={f['key']}\n  what={f['what'][:600]}")
        rc = 1
    if len(violations) > MAX_REPORTED:
        print(f"  ... and {len(violations) - MAX_REPORTED} further distinct violation keys")
    if unconfirmed and not confirmed:
        return 3
    write_evidence(ctx, wall, len(violations), [kf["key"] for _, kf in knowns])
    cov = ctx.coverage
    print(f"{prop} tier={tier} seed={seed} evaluations={res.evaluations} distinct_nontrivial={len(res.distinct)} "
          f"violations={len(violations)} known={len(printed)} wall={wall:.1f}s "
          + " ".join(f"{k}={cov[k]}" for k in ("states", "transitions", "exhaustive", "capped") if k in cov))
    return rc


def write_evidence(ctx: Ctx, wall: float, n_viol: int, known_keys):
    res = ctx.res
    level = LEVELS[ctx.prop]
    cov = dict(ctx.coverage)
    cov.setdefault("evaluations", res.evaluations)
    cov.setdefault("distinct_nontrivial", len(res.distinct))
    cov.setdefault("rule", ctx.rule)
    cov.setdefault("samples", res.samples[:6] if res.samples else [])
    if ctx.exhaustive is not None:
        cov.setdefault("exhaustive", bool(ctx.exhaustive))
    cov["capped"] = bool(ctx.capped or cov.get("capped", False))
    for k, v in res.counters.items():
        cov.setdefault(k, v)
    for k, v in res.sets.items():
        cov.setdefault("n_" + k, len(v))
    cov["known_findings_hit"] = sorted(set(known_keys))
    ev = dict(property_id=ctx.prop, tier=ctx.tier, seed=ctx.seed, level=level, coverage=jsonable(cov),
              assumptions=ctx.assumptions, wall_s=round(wall, 3), violations=n_viol)
    EVIDENCE_DIR.mkdir(exist_ok=True, parents=True)
    (EVIDENCE_DIR / f"{ctx.prop}.json").write_text(json.dumps(ev, indent=1))
    schema_p = Path("/root/.vp/EVIDENCE.schema.json")
    if schema_p.exists():
        try:
            import jsonschema

            jsonschema.validate(ev, json.loads(schema_p.read_text()))
        except ImportError:
            pass
        except Exception as e:  # an evidence file that does not validate counts as no evidence: say so loudly
            print(f"HARNESS-WARNING: evidence for {ctx.prop} does not validate: {str(e)[:300]}", file=sys.stderr)


def run_replay(path: str) -> int:
    bind_repo()
    d = json.loads(Path(path).read_text())
    mod = check_module(d["property"])
    res = Result()
    if d.get("replay_mode") == "task":
        modname, funcname, task = d["task"]
        sub = Result()
        getattr(importlib.import_module(modname), funcname)(task, sub)
        for f in sub.fails:
            if f["key"] == d["key"]:
                res.fail(f["key"], f["what"], f["replay"])
    else:
        mod.replay(d["replay"], res)
    if res.fails:
        for f in res.fails:
            print(f"REPLAY-FAIL property={d['property']} key={f['key']}\n  {f['what'][:1500]}")
        return 1
    print(f"REPLAY-PASS property={d['property']} key={d['key']}")
    return 0
