"""C06 Modular tokenization is a faithful, decodable encoding of the maze (DESIGN 5/C06, Appendix A).

Every case is one real tokenization (element level: `adj_list_tokenizer.to_tokens(maze, coord_tokenizer)`,
`path_tokenizer.to_tokens(maze, coord_tokenizer)`; whole prompt: `MazeTokenizerModular.to_tokens(maze)`) executed
under the choice oracle and decoded by an independent *grammar decoder* that is configured only from the
tokenizer's parameter values (class names and flags read off the instance) and never calls library
tokenization code. The decoded content is compared with the reference model of the maze (`refmodel`).

Sweeps (all complete on the stated finite sets):
  adj    all coord x all adjacency-list tokenizers (library `all_instances` + its validation funcs) x graph sets
  path   all coord x all path tokenizers x solved-maze sets
  full   pairwise-covering full tokenizers x many small mazes of all three kinds        (input sweep)
  prompt both sequencers x all coord tokenizers x covering (adj, path, target) rows x all kinds (whole prompt)
"""
import re

import numpy as np

from .. import explore, refmodel as R
from ..choice import CH, owned_rng

# --------------------------------------------------------------------------------------------------------------
# token spellings, re-stated from DESIGN Appendix A (pinned against the library's constants by C14)
T_CONN, T_WALL, T_ENDLINE = "<-->", "<XX>", ";"
T_CPRE, T_CINTRA, T_CPOST = "(", ",", ")"
T_TARGET_POST = "||"
T_STEP_PRE, T_STEP_INTRA, T_STEP_POST = "STEP", ":", "THEN"
DELIMS = ["<ADJLIST_START>", "<ADJLIST_END>", "<ORIGIN_START>", "<ORIGIN_END>",
          "<TARGET_START>", "<TARGET_END>", "<PATH_START>", "<PATH_END>"]
DELIMSET = set(DELIMS)
# reference directions: rows grow to the SOUTH, columns grow to the EAST
DIR_DELTA = {"NORTH": (-1, 0), "SOUTH": (1, 0), "WEST": (0, -1), "EAST": (0, 1)}
DELTA_DIR = {v: k for k, v in DIR_DELTA.items()}
LEFT_OF = {"NORTH": "WEST", "WEST": "SOUTH", "SOUTH": "EAST", "EAST": "NORTH"}  # facing X, my left hand points to ...
OPPOSITE = {"NORTH": "SOUTH", "SOUTH": "NORTH", "EAST": "WEST", "WEST": "EAST"}
REL_WORDS = ("FORWARD", "LEFT", "RIGHT", "BACKWARD")
_UT_RE = re.compile(r"\((\d+),(\d+)\)")
_INT_RE = re.compile(r"\d+")
_DIST_RE = re.compile(r"\+(\d+)")

KIND_NAME = {"L": "untargeted", "T": "targeted", "S": "solved"}
KIND_DELIMS = {"L": DELIMS[:2], "T": DELIMS[:6], "S": DELIMS[:8]}


def relative_word(facing: str, move: str) -> str:
    if move == facing:
        return "FORWARD"
    if move == LEFT_OF[facing]:
        return "LEFT"
    if move == OPPOSITE[facing]:
        return "BACKWARD"
    return "RIGHT"


# --------------------------------------------------------------------------------------------------------------
# tokenizer parameters (read off the instances) and builders (for replay)
def coord_params(ct):
    n = type(ct).__name__
    if n == "UT":
        return dict(cls="UT")
    if n == "CTT":
        return dict(cls="CTT", pre=bool(ct.pre), intra=bool(ct.intra), post=bool(ct.post))
    raise RuntimeError(f"C06 decoder: unknown coord tokenizer {n}")


def adj_params(a):
    g, s, p = a.edge_grouping, a.edge_subset, a.edge_permuter
    if type(g).__name__ != "Ungrouped" or a.pre is not False:
        raise RuntimeError(f"C06 decoder: adjacency tokenizer outside the supported space: {a.name}")
    sn = type(s).__name__
    subset = "all" if sn == "AllLatticeEdges" else ("walls" if s.walls else "conn")
    if sn not in ("AllLatticeEdges", "ConnectionEdges"):
        raise RuntimeError(f"C06 decoder: unknown edge subset {sn}")
    return dict(cls=type(a).__name__, post=bool(a.post), shuffle_d0=bool(a.shuffle_d0),
                ordinal=int(g.connection_token_ordinal), subset=subset, permuter=type(p).__name__)


def path_params(p):
    if type(p).__name__ != "StepSequence":
        raise RuntimeError(f"C06 decoder: unknown path tokenizer {type(p).__name__}")
    return dict(size=type(p.step_size).__name__, toks=[type(t).__name__ for t in p.step_tokenizers],
                pre=bool(p.pre), intra=bool(p.intra), post=bool(p.post))


def target_params(t):
    if type(t).__name__ != "Unlabeled":
        raise RuntimeError(f"C06 decoder: unknown target tokenizer {type(t).__name__}")
    return dict(post=bool(t.post))


def _key(d):
    return repr(sorted((k, tuple(v) if isinstance(v, list) else v) for k, v in d.items()))


class Space:
    """the library's own enumeration of the supported element space, indexed by parameter dicts"""

    def __init__(self):
        from maze_dataset.tokenization import AdjListTokenizers, CoordTokenizers, PathTokenizers, TargetTokenizers
        from maze_dataset.tokenization.all_tokenizers import MAZE_TOKENIZER_MODULAR_DEFAULT_VALIDATION_FUNCS as VF
        from maze_dataset.utils import all_instances

        self.coords = list(all_instances(CoordTokenizers._CoordTokenizer, VF))
        self.adjs = list(all_instances(AdjListTokenizers._AdjListTokenizer, VF))
        self.paths = list(all_instances(PathTokenizers._PathTokenizer, VF))
        self.targets = list(all_instances(TargetTokenizers._TargetTokenizer, VF))
        self.cp = [coord_params(x) for x in self.coords]
        self.ap = [adj_params(x) for x in self.adjs]
        self.pp = [path_params(x) for x in self.paths]
        self.tp = [target_params(x) for x in self.targets]
        self.by = {}
        for fam, objs, ps in (("c", self.coords, self.cp), ("a", self.adjs, self.ap), ("p", self.paths, self.pp),
                              ("t", self.targets, self.tp)):
            for o, p in zip(objs, ps):
                if (fam, _key(p)) in self.by:
                    raise RuntimeError(f"C06: two enumerated elements with the same parameters {p}")
                self.by[(fam, _key(p))] = o

    def get(self, fam, params):
        return self.by[(fam, _key(params))]

    def full(self, fp):
        """MazeTokenizerModular from dict(seq=, coord=, adj=, path=, target=|None), elements taken from the enumeration"""
        from maze_dataset.tokenization import MazeTokenizerModular, PromptSequencers

        kw = dict(coord_tokenizer=self.get("c", fp["coord"]), adj_list_tokenizer=self.get("a", fp["adj"]),
                  path_tokenizer=self.get("p", fp["path"]))
        if fp["seq"] == "AOTP":
            seq = PromptSequencers.AOTP(target_tokenizer=self.get("t", fp["target"]), **kw)
        else:
            seq = PromptSequencers.AOP(**kw)
        return MazeTokenizerModular(prompt_sequencer=seq)


_SPACE = []


def space() -> Space:
    if not _SPACE:
        _SPACE.append(Space())
    return _SPACE[0]


# --------------------------------------------------------------------------------------------------------------
# the grammar decoder (DESIGN Appendix A). Pure functions of (token list, parameter dicts).
class Bad(Exception):
    def __init__(self, symptom, msg):
        super().__init__(msg)
        self.symptom, self.msg = symptom, msg


def _tok(toks, i, what):
    if i >= len(toks):
        raise Bad("parse", f"stream ends where {what} is expected (position {i})")
    return toks[i]


def _expect(toks, i, lit, what):
    t = _tok(toks, i, what)
    if t != lit:
        raise Bad("parse", f"expected {what} {lit!r} at position {i}, found {t!r}")
    return i + 1


def coord_width(cp):
    return 1 if cp["cls"] == "UT" else 2 + cp["pre"] + cp["intra"] + cp["post"]


def parse_coord(toks, i, cp):
    if cp["cls"] == "UT":
        t = _tok(toks, i, "a unique coordinate token")
        m = _UT_RE.fullmatch(t)
        if not m:
            raise Bad("parse", f"expected a coordinate token '(r,c)' at position {i}, found {t!r}")
        return (int(m.group(1)), int(m.group(2))), i + 1
    if cp["pre"]:
        i = _expect(toks, i, T_CPRE, "coordinate opener")
    vals = []
    for k in range(2):
        t = _tok(toks, i, "a coordinate component")
        if not _INT_RE.fullmatch(t):
            raise Bad("parse", f"expected a coordinate component at position {i}, found {t!r}")
        vals.append(int(t))
        i += 1
        if k == 0 and cp["intra"]:
            i = _expect(toks, i, T_CINTRA, "coordinate separator")
    if cp["post"]:
        i = _expect(toks, i, T_CPOST, "coordinate closer")
    return (vals[0], vals[1]), i


def parse_adj(toks, ap, cp):
    """-> list of (lead, trail, is_connection)"""
    out, i = [], 0
    parts = ["lead", "trail"]
    parts.insert(ap["ordinal"], "conn")
    while i < len(toks):
        lead = trail = label = None
        for part in parts:
            if part == "conn":
                t = _tok(toks, i, "a connector/wall token")
                if t not in (T_CONN, T_WALL):
                    raise Bad("parse", f"expected '<-->' or '<XX>' at position {i}, found {t!r}")
                label = t == T_CONN
                i += 1
            elif part == "lead":
                lead, i = parse_coord(toks, i, cp)
            elif ap["cls"] == "AdjListCoord":
                trail, i = parse_coord(toks, i, cp)
            else:
                t = _tok(toks, i, "a cardinal direction")
                if t not in DIR_DELTA:
                    raise Bad("parse", f"expected a cardinal direction at position {i}, found {t!r}")
                d = DIR_DELTA[t]
                trail = (lead[0] + d[0], lead[1] + d[1])
                i += 1
        if ap["post"]:
            i = _expect(toks, i, T_ENDLINE, "edge terminator")
        out.append((lead, trail, label))
    return out


def parse_single_coord(toks, cp, what):
    c, i = parse_coord(toks, 0, cp)
    if i != len(toks):
        raise Bad("parse", f"{what} region has {len(toks) - i} surplus tokens after the coordinate: {toks[i:]}")
    return c


def parse_target(toks, tp, cp):
    c, i = parse_coord(toks, 0, cp)
    if tp["post"]:
        i = _expect(toks, i, T_TARGET_POST, "target terminator")
    if i != len(toks):
        raise Bad("parse", f"target region has {len(toks) - i} surplus tokens: {toks[i:]}")
    return c


def parse_path(toks, pp, cp):
    """-> (leading coord | None, [ {step tokenizer name: decoded value} ])"""
    i, lead = 0, None
    if "Coord" in pp["toks"]:
        if pp["pre"]:
            i = _expect(toks, i, T_STEP_PRE, "step opener")
        lead, i = parse_coord(toks, i, cp)
        if pp["intra"]:
            i = _expect(toks, i, T_STEP_INTRA, "step separator")
    steps = []
    while i < len(toks):
        if pp["pre"]:
            i = _expect(toks, i, T_STEP_PRE, "step opener")
        st = {}
        for name in pp["toks"]:
            if name == "Coord":
                st[name], i = parse_coord(toks, i, cp)
            else:
                t = _tok(toks, i, f"a {name} token")
                if name == "Cardinal":
                    if t not in DIR_DELTA:
                        raise Bad("parse", f"expected a cardinal direction at position {i}, found {t!r}")
                    st[name] = t
                elif name == "Relative":
                    if t not in REL_WORDS:
                        raise Bad("parse", f"expected a relative direction at position {i}, found {t!r}")
                    st[name] = t
                elif name == "Distance":
                    m = _DIST_RE.fullmatch(t)
                    if not m:
                        raise Bad("parse", f"expected a distance token '+n' at position {i}, found {t!r}")
                    st[name] = int(m.group(1))
                else:
                    raise RuntimeError(f"C06 decoder: unknown step tokenizer {name}")
                i += 1
            if pp["intra"]:
                i = _expect(toks, i, T_STEP_INTRA, "step separator")
        if pp["post"]:
            i = _expect(toks, i, T_STEP_POST, "step terminator")
        steps.append(st)
    return lead, steps


def split_prompt(toks, kind):
    """-> dict region name -> token list; delimiters exactly once each, in order, only those of the maze kind"""
    want = KIND_DELIMS[kind]
    got = [(i, t) for i, t in enumerate(toks) if t in DELIMSET]
    if [t for _, t in got] != want:
        raise Bad("delimiters", f"delimiter sequence {[t for _, t in got]} != expected {want}")
    pos = [i for i, _ in got]
    if pos[0] != 0 or pos[-1] != len(toks) - 1:
        raise Bad("delimiters", "tokens outside the delimited regions at the ends of the prompt")
    for k in range(1, len(pos) - 1, 2):
        if pos[k + 1] != pos[k] + 1:
            raise Bad("delimiters", f"tokens between {want[k]} and {want[k + 1]}: {toks[pos[k] + 1:pos[k + 1]]}")
    names = ["adj", "origin", "target", "path"]
    return {names[k // 2]: toks[pos[k] + 1:pos[k + 1]] for k in range(0, len(pos), 2)}


# --------------------------------------------------------------------------------------------------------------
# reference content and judgement
def maze_cl(spec):
    kind, r, c, bits = spec[:4]
    return R.graph_from_bits(r, c, bits)


def judge_vocab(toks, vocab):
    for t in toks:
        if not isinstance(t, str) or t not in vocab:
            raise Bad("vocab", f"token {t!r} is not in VOCAB_LIST")


_REF = {}


def ref_of(cl):
    """reference content of a connection array (cached): lattice edge list/set, connection set, adjacency"""
    k = (cl.shape, cl.tobytes())
    v = _REF.get(k)
    if v is None:
        if len(_REF) > 5000:
            _REF.clear()
        _, r, c = cl.shape
        lattice = [R.edge_cells(e) for e in R.lattice_edges(r, c)]
        v = _REF[k] = (r, c, lattice, {frozenset(e) for e in lattice}, R.edge_set(cl), R.adjacency(cl))
    return v


def judge_adj(toks, ap, cp, cl):
    entries = parse_adj(toks, ap, cp)
    r, c, lattice, latset, conn, _ = ref_of(cl)
    if ap["subset"] == "all":
        sel = lattice
    elif ap["subset"] == "conn":
        sel = [e for e in lattice if frozenset(e) in conn]
    else:
        sel = [e for e in lattice if frozenset(e) not in conn]
    for lead, trail, label in entries:
        if frozenset((lead, trail)) not in latset or lead == trail:
            raise Bad("not_lattice_edge", f"entry {lead}->{trail} is not an edge of the {r}x{c} lattice")
        if label != (frozenset((lead, trail)) in conn):
            raise Bad("label", f"edge {lead}-{trail} marked {'connection' if label else 'wall'}, "
                               f"the maze has a {'connection' if not label else 'wall'} there")
    if ap["permuter"] == "BothCoords":
        want = {}
        for a, b in sel:
            want[(a, b)] = 1
            want[(b, a)] = 1
        got = {}
        for lead, trail, _ in entries:
            got[(lead, trail)] = got.get((lead, trail), 0) + 1
    else:
        want = {frozenset(e): 1 for e in sel}
        got = {}
        for lead, trail, _ in entries:
            k = frozenset((lead, trail))
            got[k] = got.get(k, 0) + 1
    if got != want:
        missing = sorted(tuple(sorted(k)) if isinstance(k, frozenset) else k for k in want if k not in got)
        extra = sorted((tuple(sorted(k)) if isinstance(k, frozenset) else k, n) for k, n in got.items() if want.get(k, 0) != n)
        raise Bad("edge_multiset", f"listed edges differ from the selected set ({ap['subset']}, {ap['permuter']}): "
                                   f"missing {missing[:6]}, surplus/duplicated {extra[:6]}")
    return len(entries)


def step_indices(cl, sol, size):
    L = len(sol)
    if size == "Singles":
        return list(range(L))
    if size == "Forks":
        adj = ref_of(cl)[5]
        return [k for k in range(L) if k == 0 or k == L - 1 or len(adj[sol[k]]) > 2]
    raise RuntimeError(f"C06 decoder: unknown step size {size}")


def judge_path(toks, pp, cp, cl, sol):
    lead, steps = parse_path(toks, pp, cp)
    sol = [tuple(int(x) for x in p) for p in sol]
    if "Coord" in pp["toks"]:
        if lead != sol[0]:
            raise Bad("leading_coord", f"leading coordinate {lead} != first solution cell {sol[0]}")
    idx = step_indices(cl, sol, pp["size"])
    pairs = list(zip(idx[:-1], idx[1:]))
    if len(steps) != len(pairs):
        raise Bad("step_count", f"{len(steps)} steps in the stream, reference {pp['size']} rule gives {len(pairs)} "
                                f"(indices {idx}) for solution {sol}")
    for n, ((i, j), st) in enumerate(zip(pairs, steps)):
        move = DELTA_DIR.get((sol[i + 1][0] - sol[i][0], sol[i + 1][1] - sol[i][1]))
        facing = "NORTH" if i == 0 else DELTA_DIR.get((sol[i][0] - sol[i - 1][0], sol[i][1] - sol[i - 1][1]))
        want = dict(Coord=sol[j], Cardinal=move, Relative=relative_word(facing, move), Distance=j - i)
        for name in pp["toks"]:
            if st[name] != want[name]:
                raise Bad(name.lower(), f"step {n} (solution indices {i}->{j}): {name} decoded as {st[name]!r}, "
                                        f"reference {want[name]!r}; solution {sol}")
    return len(steps)


def judge_prompt(toks, fp, spec, vocab):
    """whole prompt. returns number of decoded items. Raises Bad(symptom) with .region set"""
    kind = spec[0]
    cl = maze_cl(spec)
    region = "prompt"
    try:
        judge_vocab(toks, vocab)
        regs = split_prompt(toks, kind)
        region = "adj"
        n = judge_adj(regs["adj"], fp["adj"], fp["coord"], cl)
        if kind in ("T", "S"):
            start, end = tuple(spec[4]), tuple(spec[5])
            region = "origin"
            got = parse_single_coord(regs["origin"], fp["coord"], "origin")
            if got != start:
                raise Bad("wrong_cell", f"origin decodes to {got}, start is {start}")
            region = "target"
            if fp["seq"] == "AOP":
                if regs["target"]:
                    raise Bad("not_empty", f"AOP target region is not empty: {regs['target']}")
            else:
                got = parse_target(regs["target"], fp["target"], fp["coord"])
                if got != end:
                    raise Bad("wrong_cell", f"target decodes to {got}, end is {end}")
            n += 2
        if kind == "S":
            region = "path"
            n += judge_path(regs["path"], fp["path"], fp["coord"], cl, spec[6])
        return n
    except Bad as b:
        b.region = region
        raise


# --------------------------------------------------------------------------------------------------------------
# mazes
def build(spec):
    from maze_dataset.maze import LatticeMaze, SolvedMaze, TargetedLatticeMaze

    kind, r, c, bits = spec[:4]
    cl = R.graph_from_bits(r, c, bits)
    if kind == "L":
        return LatticeMaze(connection_list=cl)
    if kind == "T":
        return TargetedLatticeMaze(connection_list=cl, start_pos=np.array(spec[4]), end_pos=np.array(spec[5]))
    return SolvedMaze(connection_list=cl, solution=np.array(spec[6]))


def L(r, c, bits):
    return ("L", r, c, bits)


def T(r, c, bits, s, e):
    return ("T", r, c, bits, tuple(s), tuple(e))


def S(r, c, bits, sol):
    sol = tuple(tuple(p) for p in sol)
    return ("S", r, c, bits, sol[0], sol[-1], sol)


def spec_from_json(d):
    d = list(d)
    if d[0] == "L":
        return L(*d[1:4])
    if d[0] == "T":
        return T(*d[1:6])
    return S(d[1], d[2], d[3], d[6])


def bits_of_edges(r, c, edges):
    idx = {frozenset(R.edge_cells(e)): k for k, e in enumerate(R.lattice_edges(r, c))}
    b = 0
    for a, bb in edges:
        b |= 1 << idx[frozenset((tuple(a), tuple(bb)))]
    return b


def bfs_path(adj, s, e):
    """one shortest path, neighbours visited in sorted order (deterministic)"""
    prev = {s: None}
    q = [s]
    while q:
        nq = []
        for x in q:
            for y in sorted(adj[x]):
                if y not in prev:
                    prev[y] = x
                    nq.append(y)
        q = nq
    if e not in prev:
        return None
    p = [e]
    while prev[p[-1]] is not None:
        p.append(prev[p[-1]])
    return p[::-1]


def structured(n):
    """a structured n x n maze with cycles, degree 1..4 cells and corridors: all row corridors, a serpentine of
    vertical links at alternating ends, a vertical spine in the middle column (cycles, degree-4 cells) and the
    last row/column block left walled. Returns (bits, snake-ish long solution, a shortest solution)"""
    edges = []
    for i in range(n):
        for j in range(n - 1):
            if not (i == n - 1 and j >= n - 3):  # some walls in the last row
                edges.append(((i, j), (i, j + 1)))
    for i in range(n - 1):
        j = n - 1 if i % 2 == 0 else 0
        edges.append(((i, j), (i + 1, j)))
    mid = n // 2
    for i in range(n - 1):
        edges.append(((i, mid), (i + 1, mid)))
    bits = bits_of_edges(n, n, edges)
    # long solution: the serpentine (never uses the spine), from (0,0) to the end of the second-to-last row
    snake = []
    for i in range(n - 1):
        cols = range(n) if i % 2 == 0 else range(n - 1, -1, -1)
        snake += [(i, j) for j in cols]
    adj = R.adjacency(R.graph_from_bits(n, n, bits))
    assert R.path_valid(adj, snake)
    short = bfs_path(adj, (0, 0), (n - 1, 0))
    return bits, snake, short


PAIRS33 = [((0, 0), (2, 2)), ((2, 2), (0, 0)), ((0, 2), (1, 1)), ((1, 1), (2, 1)), ((1, 0), (1, 2)), ((2, 0), (2, 0)),
           ((0, 1), (2, 1))]


def graphs33_set(quick):
    """DESIGN: {all 192 trees, full lattice, empty, every single-edge graph} (+ full minus one edge)"""
    E = len(R.lattice_edges(3, 3))
    full = (1 << E) - 1
    trees = R.trees(3, 3)
    if quick:
        trees = trees[::8]
    gs = list(trees) + [full, 0] + [1 << k for k in range(E)] + [full ^ (1 << k) for k in range(E)]
    return list(dict.fromkeys(gs))


def solved_for(r, c, bits, pairs, all_shortest=True):
    adj = R.adjacency(R.graph_from_bits(r, c, bits))
    out = []
    for s, e in pairs:
        sps = R.all_shortest_paths(adj, s, e)
        for p in (sps if all_shortest else sps[:1]):
            out.append(S(r, c, bits, p))
    return out


def simple_solved(r, c, bits, max_cells=None):
    adj = R.adjacency(R.graph_from_bits(r, c, bits))
    out = []
    for s in R.cells(r, c):
        for p in R.simple_paths(adj, s, max_cells or r * c):
            out.append(S(r, c, bits, p))
    return out


def adj_maze_set(name, tier):
    quick = tier == "quick"
    if name == "g22":
        return [L(2, 2, b) for b in range(16)]
    if name == "g33":
        return [L(3, 3, b) for b in graphs33_set(quick)]
    if name == "g33all":
        return [L(3, 3, b) for b in range(R.n_graphs(3, 3))]
    if name == "g44":
        E = len(R.lattice_edges(4, 4))
        full = (1 << E) - 1
        return [L(4, 4, b) for b in [0, full, full ^ 1, full ^ (1 << (E - 1)), 0x5A5A5A & full, 0xA5A5A5 & full]]
    if name == "big11":
        return [L(11, 11, structured(11)[0])]
    if name == "big50":
        return [L(50, 50, structured(50)[0])]
    if name in ("big13", "big16", "big24", "big33"):
        # flat cell indices beyond 127 / 255 (narrow integer types), one structured maze and one fixed irregular bit pattern
        n = int(name[3:])
        E = len(R.lattice_edges(n, n))
        x, bits = 0x2545F491, 0
        for k in range(E):
            x = (x * 1103515245 + 12345) & 0x7FFFFFFF
            if (x >> 16) & 1:
                bits |= 1 << k
        return [L(n, n, structured(n)[0]), L(n, n, bits)]
    raise KeyError(name)


def path_maze_set(name, tier):
    quick = tier == "quick"
    if name == "s22":
        out = []
        for b in range(16):
            out += simple_solved(2, 2, b)
        return out
    if name == "s22q":  # quick: every simple path of the 2x2 lattice (on the full graph) + every graph with its longest ones
        out = simple_solved(2, 2, 15)
        for b in R.trees(2, 2) + [0, 1, 6]:
            ss = simple_solved(2, 2, b)
            m = max(len(s[6]) for s in ss)
            out += [s for s in ss if len(s[6]) == m][:1]
        return out
    if name == "s33":
        out = []
        full = (1 << 12) - 1
        if quick:
            for b in R.trees(3, 3)[::32] + [full, full ^ 1]:
                out += solved_for(3, 3, b, PAIRS33[:3])
        else:
            for b in graphs33_set(False):
                out += solved_for(3, 3, b, PAIRS33[:3] if b in R.trees(3, 3) else PAIRS33)
        # non-shortest stored solutions through the centre of the full lattice and of a cyclic graph
        for b in (full, full ^ 1, R.trees(3, 3)[0] | R.trees(3, 3)[-1]):
            adj = R.adjacency(R.graph_from_bits(3, 3, b))
            ps = [p for p in R.simple_paths(adj, (0, 0), 9) if p[-1] == (2, 2)]
            ps += [p for p in R.simple_paths(adj, (1, 1), 9) if len(p) == 9]
            out += [S(3, 3, b, p) for p in (ps[3::16] if quick else ps[::3])]
        return list(dict.fromkeys(out))
    if name == "s33same":
        # one stored solution, many mazes: every (quick: every 4th) graph that contains the path, in both orders - the path region depends
        # on the walls around the path (fork points), not only on the path
        out = []
        for path in ([(0, 0), (0, 1), (1, 1), (2, 1), (2, 2)], [(2, 0), (1, 0), (0, 0), (0, 1), (0, 2)]):
            need = bits_of_edges(3, 3, list(zip(path, path[1:])))
            free = [k for k in range(12) if not (need >> k) & 1]
            sup = []
            for mask in range(1 << len(free)):
                b = need
                for i, k in enumerate(free):
                    if (mask >> i) & 1:
                        b |= 1 << k
                sup.append(b)
            sup = sup[::4] if quick else sup
            out += [S(3, 3, b, path) for b in sup] + [S(3, 3, b, path) for b in reversed(sup)]
        return out
    if name in ("w22", "w33"):
        # stored solutions that are WALKS (cells repeat: the walker backs up, passes through its own start again, or through its end
        # before finishing) - the library accepts any valid path as a solution and has a BACKWARD step word; step sizes are defined per
        # INDEX of the solution
        def walks_of(r, c, b, maxlen):
            adj = R.adjacency(R.graph_from_bits(r, c, b))
            out = []

            def ext(w):
                if len(w) >= 3 and len(set(w)) < len(w):
                    out.append(S(r, c, b, w))
                if len(w) < maxlen:
                    for nb in sorted(adj[w[-1]]):
                        ext(w + [nb])

            for s0 in R.cells(r, c):
                ext([s0])
            return out

        if name == "w22":
            out = []
            for b in range(16):
                out += walks_of(2, 2, b, 5 if quick else 6)
            return out
        full = (1 << 12) - 1
        out = []
        for b in [R.trees(3, 3)[0], R.trees(3, 3)[77], full, full ^ 1] + ([] if quick else R.trees(3, 3)[5::40]):
            ws = walks_of(3, 3, b, 5)
            out += [w for w in ws if w[6][0] in w[6][1:-1] or w[6][-1] in w[6][1:-1]][:: 7 if quick else 2]
        return out
    if name == "s11":
        bits, snake, short = structured(11)
        if quick:
            return [S(11, 11, bits, snake[::-1][:37])]
        return [S(11, 11, bits, snake), S(11, 11, bits, short), S(11, 11, bits, snake[::-1][:37])]
    if name == "corr17":
        # fork-free serpentine corridor on 17x17 (289 cells): Forks steps of 255 (largest Distance token) and 256 cells
        n = 17
        edges = [((i, j), (i, j + 1)) for i in range(n) for j in range(n - 1)]
        edges += [((i, n - 1 if i % 2 == 0 else 0), (i + 1, n - 1 if i % 2 == 0 else 0)) for i in range(n - 1)]
        bits = bits_of_edges(n, n, edges)
        snake = []
        for i in range(n):
            snake += [(i, j) for j in (range(n) if i % 2 == 0 else range(n - 1, -1, -1))]
        return [S(n, n, bits, snake[:256]), S(n, n, bits, snake[:257])]
    if name == "s50":
        bits, snake, short = structured(50)
        # Distance tokens exist up to +255: the longest fork-free stretch of the stored solution stays below that
        return [S(50, 50, bits, short), S(50, 50, bits, snake[20:50 + 200])]
    raise KeyError(name)


def kinds_of(r, c, bits, pairs, with_untargeted=True, all_shortest=False):
    """the untargeted maze, the targeted mazes for `pairs`, the solved mazes for connected pairs"""
    out = [L(r, c, bits)] if with_untargeted else []
    adj = R.adjacency(R.graph_from_bits(r, c, bits))
    for s, e in pairs:
        out.append(T(r, c, bits, s, e))
        sps = R.all_shortest_paths(adj, s, e)
        for p in (sps if all_shortest else sps[:1]):
            out.append(S(r, c, bits, p))
    return out


PAIRS22 = [((0, 0), (1, 1)), ((1, 1), (0, 0)), ((0, 1), (1, 0)), ((1, 0), (1, 0)), ((0, 0), (0, 1))]
PAIRS23 = [((0, 0), (1, 2)), ((1, 2), (0, 0)), ((0, 2), (1, 0)), ((1, 1), (1, 1)), ((0, 1), (1, 1))]


def full_maze_set(name, tier):
    quick = tier == "quick"
    out = []
    if name == "k22":  # every graph x every ordered pair (incl. start=end) x all shortest paths
        cells = R.cells(2, 2)
        for b in range(16):
            out += kinds_of(2, 2, b, [(s, e) for s in cells for e in cells], all_shortest=True)
    elif name == "k22s":
        for b in range(16):
            out += kinds_of(2, 2, b, PAIRS22)
    elif name == "k23":  # non-square
        for b in range(R.n_graphs(2, 3)):
            out += kinds_of(2, 3, b, PAIRS23[:2] if quick else PAIRS23)
    elif name == "trees33":
        for b in R.trees(3, 3):
            out += kinds_of(3, 3, b, PAIRS33[:4] if quick else PAIRS33)
    elif name == "cyc33":  # cyclic graphs: trees plus one or two extra edges, full, near-full
        E = 12
        full = (1 << E) - 1
        ts = R.trees(3, 3)
        gs = [full] + [full ^ (1 << k) for k in range(E)]
        for t in ts[::4 if quick else 1]:
            free = [k for k in range(E) if not (t >> k) & 1]
            gs.append(t | (1 << free[0]))
            gs.append(t | (1 << free[-1]) | (1 << free[1]))
        for b in dict.fromkeys(gs):
            out += kinds_of(3, 3, b, PAIRS33[:3] if quick else PAIRS33, all_shortest=not quick)
    elif name == "g33all":  # thorough: all of G(3,3)
        for b in range(R.n_graphs(3, 3)):
            out += kinds_of(3, 3, b, PAIRS33[:3], all_shortest=False)
    elif name == "p33":  # whole-prompt sweep, 3x3
        ts = R.trees(3, 3)
        for b in [ts[0], ts[77], ts[-1], (1 << 12) - 1, 0, ts[5] | ts[100]]:
            out += kinds_of(3, 3, b, PAIRS33[:4], all_shortest=True)
    elif name == "k11":
        bits, snake, short = structured(11)
        out = [L(11, 11, bits), T(11, 11, bits, (0, 0), (10, 10)), T(11, 11, bits, (10, 3), (2, 10)),
               S(11, 11, bits, snake), S(11, 11, bits, short)]
    else:
        raise KeyError(name)
    return list(dict.fromkeys(out))


# --------------------------------------------------------------------------------------------------------------
# covering sets of full tokenizers
COORD_VALUES = [dict(cls="UT")] + [dict(cls="CTT", pre=a, intra=b, post=c) for a in (True, False) for b in (True, False)
                                   for c in (True, False)]
STEP_NAMES = ["Coord", "Cardinal", "Relative", "Distance"]
AXES = [
    ("seq", ["AOTP+T", "AOTP+F", "AOP"]),
    ("coord", list(range(9))),
    ("adj_cls", ["AdjListCoord", "AdjListCardinal"]),
    ("adj_post", [True, False]),
    ("shuffle_d0", [True, False]),
    ("ordinal", [0, 1, 2]),
    ("subset", ["all", "conn", "walls"]),
    ("permuter", ["SortedCoords", "RandomCoords", "BothCoords"]),
    ("size", ["Singles", "Forks"]),
    ("has_Coord", [1, 0]), ("has_Cardinal", [1, 0]), ("has_Relative", [1, 0]), ("has_Distance", [1, 0]),
    ("order", [0, 1, 2]),
    ("p_pre", [True, False]), ("p_intra", [True, False]), ("p_post", [True, False]),
]


def _row_valid(row):
    return row[9] or row[10] or row[11]  # at least one step tokenizer besides Distance


def covering_rows(axes, valid=lambda row: True, fix_axes=()):
    """deterministic greedy pairwise covering array. Every pair of values of two different axes occurs in a row."""
    n = len(axes)
    unc = set()
    for i in range(n):
        for j in range(i + 1, n):
            for a in range(len(axes[i][1])):
                for b in range(len(axes[j][1])):
                    unc.add((i, a, j, b))
    rows = []
    while unc:
        i0, a0, j0, b0 = min(unc)
        row = [None] * n
        row[i0], row[j0] = a0, b0
        for k in range(n):
            if row[k] is not None:
                continue
            best, bestgain = 0, -1
            for v in range(len(axes[k][1])):
                gain = 0
                for m in range(n):
                    if row[m] is None or m == k:
                        continue
                    key = (m, row[m], k, v) if m < k else (k, v, m, row[m])
                    if key in unc:
                        gain += 1
                if gain > bestgain:
                    best, bestgain = v, gain
            row[k] = best
        vals = [axes[k][1][row[k]] for k in range(n)]
        if not valid(vals):
            for k in fix_axes:
                if k not in (i0, j0):
                    row[k] = axes[k][1].index(1)
                    break
        rows.append(row)
        for i in range(n):
            for j in range(i + 1, n):
                unc.discard((i, row[i], j, row[j]))
    return [[axes[k][1][row[k]] for k in range(n)] for row in rows]


def row_to_fp(vals):
    d = dict(zip([a for a, _ in AXES], vals))
    names = [s for s in STEP_NAMES if d["has_" + s]]
    if d["order"] == 1:
        names = names[::-1]
    elif d["order"] == 2:
        names = names[1:] + names[:1]
    return dict(
        seq="AOTP" if d["seq"].startswith("AOTP") else "AOP",
        target=dict(post=d["seq"] == "AOTP+T") if d["seq"].startswith("AOTP") else None,
        coord=COORD_VALUES[d["coord"]],
        adj=dict(cls=d["adj_cls"], post=d["adj_post"], shuffle_d0=d["shuffle_d0"], ordinal=d["ordinal"],
                 subset=d["subset"], permuter=d["permuter"]),
        path=dict(size=d["size"], toks=names, pre=d["p_pre"], intra=d["p_intra"], post=d["p_post"]),
    )


def covering_full():
    """~60 full tokenizers: every value of every axis and every pair of values of two axes occurs"""
    rows = covering_rows(AXES, _row_valid, fix_axes=(10, 11, 9))
    fps = [row_to_fp(r) for r in rows]
    # the two canonical (legacy-equivalent) tokenizers: MazeTokenizerModular() and its CTT variant
    dflt = dict(seq="AOTP", target=dict(post=False), coord=dict(cls="UT"),
                adj=dict(cls="AdjListCoord", post=True, shuffle_d0=True, ordinal=1, subset="conn", permuter="RandomCoords"),
                path=dict(size="Singles", toks=["Coord"], pre=False, intra=False, post=False))
    fps += [dflt, dict(dflt, coord=dict(cls="CTT", pre=True, intra=True, post=True))]
    out = []
    for fp in fps:
        if fp not in out:
            out.append(fp)
    return out


def covering_prompt():
    """whole-prompt sweep: sequencers x targets (3) x all 9 coords x rows pairwise-covering the adj/path axes"""
    sub = AXES[2:]
    rows = covering_rows(sub, lambda v: v[7] or v[8] or v[9], fix_axes=(8, 9, 7))
    out = []
    for seq in AXES[0][1]:
        for ci in range(9):
            for r in rows:
                fp = row_to_fp([seq, ci] + r)
                if fp not in out:
                    out.append(fp)
    return out


# --------------------------------------------------------------------------------------------------------------
# running one case
def _short(spec):
    r = repr(spec)
    return r if len(r) < 400 else r[:400] + "...)"


def fam_adj(ap):
    return ap["cls"]


def fam_path(pp, cl, sol):
    """tokenizer family, plus the input class 'gap>255' when the reference step rule needs a Distance beyond the vocabulary's +255"""
    f = pp["size"]
    if "Distance" in pp["toks"]:
        idx = step_indices(cl, [tuple(p) for p in sol], pp["size"])
        if any(j - i > 255 for i, j in zip(idx[:-1], idx[1:])):
            f += "|gap>255"
    return f


def fail_key(sweep, fam, region, symptom):
    """C06|<region judged>|<tokenizer family / input class>|<symptom>. `fam` maps region -> family string"""
    region = region or SWEEP_REGION[sweep]
    return f"C06|{region}|{fam.get(region, fam['prompt'])}|{symptom}"


SWEEP_REGION = dict(adj_region="adj", path_region="path", full="prompt", prompt="prompt")


def run_case(res, sweep, fn, judge, fam, spec, prog, explore_rng, ident, expect_nonsquare=False):
    """executes fn() under the oracle (identity answers, or every execution with <= 1 deviation), judges every outcome"""

    def on_exec(ex):
        res.ev()
        rd = dict(sweep=sweep, spec=spec, prog=prog, answers=ex.answers, fam=fam)
        if ex.exc is not None:
            if expect_nonsquare and isinstance(ex.exc, AssertionError) and "only square mazes supported" in str(ex.exc):
                res.count("documented_nonsquare_rejections")
                return
            res.fail(fail_key(sweep, fam, None, f"raises|{type(ex.exc).__name__}"),
                     f"{sweep} tokenization raised {type(ex.exc).__name__}: {str(ex.exc)[:200]} for {ident} on maze {_short(spec)} "
                     f"with RNG answers {ex.answers}", rd)
            return
        toks = ex.out
        try:
            if not isinstance(toks, list):
                raise Bad("type", f"to_tokens returned {type(toks).__name__}, not a list")
            n = judge(toks)
        except Bad as b:
            res.fail(fail_key(sweep, fam, getattr(b, "region", None), b.symptom),
                     f"[{sweep} sweep] {b.msg}; tokenizer {ident}; maze {_short(spec)}; RNG answers {ex.answers}; "
                     f"tokens: {' '.join(map(str, toks))[:700]}", rd)
            return
        if n > 0:
            res.count("decoded_items", n)
            if len(res.samples) < 2 and n >= 3 and len(toks) < 80:
                res.sample(dict(sweep=sweep, tokenizer=ident, maze=spec, answers=ex.answers, tokens=" ".join(toks)))

    if explore_rng == "script":
        # grids far too large for "every answer with <= 1 deviation": the identity answers and three scripted policies (every choice
        # point answers 1: reversal / all flipped; 2: first transposition / first flip; a large number folded into the arity: some rotation)
        for script in ([], [1] * 16, [2] * 16, [1000003] * 16):
            CH.scripted = True
            try:
                ex = explore.run_with(script, fn)
            finally:
                CH.scripted = False
            on_exec(ex)
        res.count("scripted_rng_executions", 4)
    elif explore_rng:
        st = explore.explore_stateless(fn, on_exec, dev=1)
        if st["executions"] > 1:
            res.count("cases_with_rng_alternatives")
        res.count("rng_executions", st["executions"])
    else:
        on_exec(explore.run_with([], fn))


def _vocab():
    import maze_dataset

    return set(maze_dataset.VOCAB_LIST)


def task(t, res):
    if t.get("mazes") == "s33same" and not t.get("_inner"):
        # the "one solution, many mazes" sweep is about what is remembered between mazes: its failures get their own keys, so that a
        # same-key failure of an ordinary task (in a worker poisoned by an earlier task) cannot shadow this replayable one
        from ..runner import Result

        sub = Result()
        task(dict(t, _inner=True), sub)
        res.evaluations += sub.evaluations
        res.distinct |= sub.distinct
        for k, v in sub.counters.items():
            res.count(k, v)
        for f in sub.fails:
            res.fail(f["key"] + "|same_solution_other_walls_before", "in the sweep of one stored solution over many mazes (same process): " + f["what"], f["replay"])
        return
    sp = space()
    vocab = _vocab()
    tier = t["tier"]
    with owned_rng():
        u0 = CH.unowned_draws
        if t["sweep"] == "adj":
            mazes = adj_maze_set(t["mazes"], tier)
            if "mslice" in t:
                mazes = mazes[t["mslice"][0]:t["mslice"][1]]
            built = [(s, build(s), maze_cl(s)) for s in mazes]
            coords = t.get("coords") or list(range(len(sp.coords)))
            for ai in range(*t["progs"]):
                a, ap = sp.adjs[ai], sp.ap[ai]
                for ci in coords:
                    c, cp = sp.coords[ci], sp.cp[ci]
                    for spec, m, cl in built:
                        def judge(toks, ap=ap, cp=cp, cl=cl):
                            judge_vocab(toks, vocab)
                            return judge_adj(toks, ap, cp, cl)

                        run_case(res, "adj_region", lambda: a.to_tokens(m, c), judge, dict(adj=fam_adj(ap), prompt="-"), spec,
                                 dict(adj=ap, coord=cp), t["rng"], f"{a.name} + {c.name}")
                        if cl.any() or ap["subset"] != "conn":
                            res.nontrivial(("a", ai, ci, spec))
        elif t["sweep"] == "path":
            mazes = path_maze_set(t["mazes"], tier)
            built = [(s, build(s), maze_cl(s)) for s in mazes]
            for pi in range(*t["progs"]):
                p, pp = sp.paths[pi], sp.pp[pi]
                if t.get("only_size") and pp["size"] != t["only_size"]:
                    continue
                for ci in (t.get("coords") or range(len(sp.coords))):
                    c, cp = sp.coords[ci], sp.cp[ci]
                    for spec, m, cl in built:
                        def judge(toks, pp=pp, cp=cp, cl=cl, spec=spec):
                            judge_vocab(toks, vocab)
                            return judge_path(toks, pp, cp, cl, spec[6])

                        run_case(res, "path_region", lambda: p.to_tokens(m, c), judge,
                                 dict(path=fam_path(pp, cl, spec[6]), prompt="-"), spec,
                                 dict(path=pp, coord=cp), False, f"{p.name} + {c.name}")
                        if len(spec[6]) > 1:
                            res.nontrivial(("p", pi, ci, spec))
                        if pp["size"] == "Forks" and len(step_indices(cl, list(spec[6]), "Forks")) not in (len(spec[6]), 2, 1):
                            res.count("path_cases_forks_differs_from_singles_and_endpoints")
        else:  # full / prompt
            fps = covering_full() if t["sweep"] == "full" else covering_prompt()
            mazes = full_maze_set(t["mazes"], tier)
            if "mslice" in t:
                mazes = mazes[t["mslice"][0]:t["mslice"][1]]
            built = [(s, build(s)) for s in mazes]
            for fi in range(*t["progs"]):
                fp = fps[fi]
                tok = sp.full(fp)
                for spec, m in built:
                    def judge(toks, fp=fp, spec=spec):
                        return judge_prompt(toks, fp, spec, vocab)

                    nonsq = spec[1] != spec[2] and fp["adj"]["subset"] == "all"
                    fam = dict(adj=fam_adj(fp["adj"]), prompt=f"{fp['seq']}|{KIND_NAME[spec[0]]}", origin=fp["seq"], target=fp["seq"],
                               path=fam_path(fp["path"], maze_cl(spec), spec[6]) if spec[0] == "S" else "-")
                    run_case(res, t["sweep"], lambda: tok.to_tokens(m), judge, fam, spec, fp, t["rng"],
                             tok.name, expect_nonsquare=nonsq)
                    if not nonsq:
                        res.nontrivial((t["sweep"][0], fi, spec))
                        res.count(f"{t['sweep']}_kind_{spec[0]}")
        res.count("unowned_draws", CH.unowned_draws - u0)


# --------------------------------------------------------------------------------------------------------------
def plan(tier):
    quick = tier == "quick"
    sp = space()
    nA, nP = len(sp.adjs), len(sp.paths)
    nF, nW = len(covering_full()), len(covering_prompt())
    T_ = []

    def chunks(n, k):
        step = -(-n // k)
        return [(i, min(n, i + step)) for i in range(0, n, step)]

    RNG_COORDS = [0, 1, 8]  # UT, CTT(T,T,T), CTT(F,F,F): RNG alternatives explored with these, identity answers with the others
    OTHER = [k for k in range(len(sp.coords)) if k not in RNG_COORDS]
    # 1. region sweeps
    for pr in chunks(nA, 12):
        if quick:
            T_.append(dict(sweep="adj", mazes="g22", progs=pr, rng=True, coords=RNG_COORDS))
            T_.append(dict(sweep="adj", mazes="g22", progs=pr, rng=False, coords=OTHER))
            T_.append(dict(sweep="adj", mazes="g33", progs=pr, rng=False))
        else:
            T_.append(dict(sweep="adj", mazes="g22", progs=pr, rng=True))
        T_.append(dict(sweep="adj", mazes="g44", progs=pr, rng=False))
    for pr in chunks(nA, 24):
        T_.append(dict(sweep="adj", mazes="big11", progs=pr, rng=False))
        T_.append(dict(sweep="adj", mazes="big13", progs=pr, rng=False, coords=[0, 1]))
        T_.append(dict(sweep="adj", mazes="big16", progs=pr, rng=False, coords=[0, 8] if quick else None))
        # more than 1000 / 2000 listed edges, with non-identity shuffle / flip answers (scripted policies)
        T_.append(dict(sweep="adj", mazes="big24", progs=pr, rng="script", coords=[0]))
        if not quick:
            T_.append(dict(sweep="adj", mazes="big33", progs=pr, rng="script", coords=[0, 1]))
    for pr in chunks(nP, 24):
        T_.append(dict(sweep="path", mazes="s22q" if quick else "s22", progs=pr))
        T_.append(dict(sweep="path", mazes="s11", progs=pr))
    for pr in chunks(nP, 24 if quick else 96):
        T_.append(dict(sweep="path", mazes="s33", progs=pr))
    for pr in chunks(nP, 16):
        T_.append(dict(sweep="path", mazes="s33same", progs=pr, coords=[0] if quick else [0, 1, 8]))
    for pr in chunks(nP, 8):
        T_.append(dict(sweep="path", mazes="corr17", progs=pr, coords=[0, 1], **(dict(only_size="Forks") if quick else {})))
    for pr in chunks(nP, 16):
        T_.append(dict(sweep="path", mazes="w22", progs=pr, coords=[0] if quick else [0, 1, 8]))
        T_.append(dict(sweep="path", mazes="w33", progs=pr, coords=[0]))
    # 2. input sweep with the pairwise-covering full tokenizers
    for pr in chunks(nF, 11):
        T_.append(dict(sweep="full", mazes="k22s", progs=pr, rng=True))
        T_.append(dict(sweep="full", mazes="k22", progs=pr, rng=False))
        T_.append(dict(sweep="full", mazes="k23", progs=pr, rng=False))
        T_.append(dict(sweep="full", mazes="trees33", progs=pr, rng=False))
        T_.append(dict(sweep="full", mazes="cyc33", progs=pr, rng=False))
        T_.append(dict(sweep="full", mazes="k11", progs=pr, rng=False))
    # 3. whole-prompt sweep
    for pr in chunks(nW, 12):
        T_.append(dict(sweep="prompt", mazes="k22s", progs=pr, rng=not quick))
        T_.append(dict(sweep="prompt", mazes="p33", progs=pr, rng=False))
    if not quick:
        for pr in chunks(nA, 54):
            T_.append(dict(sweep="adj", mazes="g33", progs=pr, rng=True, coords=[0]))
            T_.append(dict(sweep="adj", mazes="g33", progs=pr, rng=False, coords=list(range(1, len(sp.coords)))))
        for pr in chunks(nA, 48):
            T_.append(dict(sweep="adj", mazes="big50", progs=pr, rng="script"))
        for pr in chunks(nP, 48):
            T_.append(dict(sweep="path", mazes="s50", progs=pr))
        for pr in chunks(nF, 33):
            T_.append(dict(sweep="full", mazes="g33all", progs=pr, rng=False))
        # every adjacency tokenizer (x 3 coord tokenizers) on all of G(3,3)
        for pr in chunks(nA, 54):
            for ms in chunks(4096, 2):
                T_.append(dict(sweep="adj", mazes="g33all", progs=pr, mslice=ms, rng=False, coords=RNG_COORDS))
    for t in T_:
        t["tier"] = tier
    return T_


def run(ctx):
    sp = space()
    tasks = plan(ctx.tier)
    ctx.pmap("mzcheck.checks.c06", "task", tasks)
    for hs in (("4", "7") if ctx.quick else ("1", "2", "4", "7", "123", "4242")):  # the 2x2 sweeps again in interpreters with other hash seeds (iteration order of sets of strings)
        ctx.pmap("mzcheck.checks.c06", "task", [t for t in tasks if t.get("mazes") in ("g22", "k22", "s22q", "s22")][::3], hashseed=hs)
    fps, wps = covering_full(), covering_prompt()
    sets = {}
    for t in tasks:
        k = (t["sweep"], t["mazes"])
        if k not in sets:
            fn = adj_maze_set if t["sweep"] == "adj" else path_maze_set if t["sweep"] == "path" else full_maze_set
            sets[k] = len(fn(t["mazes"], ctx.tier))
    ctx.coverage.update(
        coord_tokenizers=len(sp.coords), adj_tokenizers=len(sp.adjs), path_tokenizers=len(sp.paths),
        target_tokenizers=len(sp.targets),
        region_programs=dict(adj=len(sp.coords) * len(sp.adjs), path=len(sp.coords) * len(sp.paths)),
        covering_full_tokenizers=len(fps), whole_prompt_tokenizers=len(wps),
        maze_sets={f"{a}:{b}": n for (a, b), n in sorted(sets.items())},
        rng_bound="every execution with <= 1 non-default RNG answer (all permutations / flip vectors for <= 4 / <= 8 items, "
                  "bounded family above) on the 2x2 sets (adjacency region: with coord tokenizers UT, CTT(T,T,T), CTT(F,F,F) in quick, all 9 in thorough; "
                  "input sweep; whole-prompt sweep in thorough) and on the 3x3 adjacency set with UT in thorough; identity answers elsewhere",
        tasks=len(tasks),
    )
    ctx.rule = ("one evaluation = one real tokenization (one RNG answer sequence) decoded by the independent grammar decoder and compared with "
                "the reference model; sweeps: all coord x all adjacency tokenizers x graph sets, all coord x all path tokenizers x solved-maze "
                "sets, pairwise-covering full tokenizers x small mazes of all kinds, both sequencers x all coord x covering rows x all kinds; "
                "distinct non-trivial = distinct (program, maze) with a non-empty decoded region (>= 1 listed edge / >= 1 step / a whole prompt)")
    ctx.exhaustive = True
    ctx.assumptions += [
        "only square mazes are tokenized with AllLatticeEdges (LatticeMaze.grid_n documents 'only square mazes supported'); "
        "on the 2x3 set that documented AssertionError is accepted for AllLatticeEdges tokenizers and nothing else",
        "order of adjacency entries is not judged (the property speaks of the edge set); solutions are simple valid paths",
        "the product programs x inputs is not claimed: each sweep is complete on one axis with a stated finite set on the other",
    ]


# --------------------------------------------------------------------------------------------------------------
def replay(d, res):
    sp = space()
    vocab = _vocab()
    spec = spec_from_json(d["spec"])
    prog = d["prog"]
    m = build(spec)
    cl = maze_cl(spec)
    sweep = d["sweep"]
    fam = d["fam"]
    with owned_rng():
        if sweep == "adj_region":
            a, c = sp.get("a", prog["adj"]), sp.get("c", prog["coord"])
            ap, cp = prog["adj"], prog["coord"]
            fn, ident = (lambda: a.to_tokens(m, c)), f"{a.name} + {c.name}"

            def judge(toks):
                judge_vocab(toks, vocab)
                return judge_adj(toks, ap, cp, cl)
        elif sweep == "path_region":
            p, c = sp.get("p", prog["path"]), sp.get("c", prog["coord"])
            pp, cp = prog["path"], prog["coord"]
            fn, ident = (lambda: p.to_tokens(m, c)), f"{p.name} + {c.name}"

            def judge(toks):
                judge_vocab(toks, vocab)
                return judge_path(toks, pp, cp, cl, spec[6])
        else:
            tok = sp.full(prog)
            fn, ident = (lambda: tok.to_tokens(m)), tok.name

            def judge(toks):
                return judge_prompt(toks, prog, spec, vocab)
        ex = explore.run_with(list(d["answers"]), fn)
        if ex.exc is not None:
            if spec[1] != spec[2] and isinstance(ex.exc, AssertionError) and "only square" in str(ex.exc):
                return
            res.fail(fail_key(sweep, fam, None, f"raises|{type(ex.exc).__name__}"), f"raised {ex.exc!r} for {ident} on {_short(spec)}", d)
            return
        try:
            if not isinstance(ex.out, list):
                raise Bad("type", "not a list")
            judge(ex.out)
        except Bad as b:
            res.fail(fail_key(sweep, fam, getattr(b, "region", None), b.symptom),
                     f"{b.msg}; tokenizer {ident}; maze {_short(spec)}; tokens: {' '.join(map(str, ex.out))[:700]}", d)
