"""C14 Token vocabularies and token-id codecs are fixed, duplicate-free, invertible (DESIGN 5/C14)

Enumerated completely:
* all 4096 positions of VOCAB_LIST against a literal re-statement of the published layout (REF below) and a pinned
  SHA-256 ("an id never changes"); VOCAB_TOKEN_TO_INDEX / VOCAB / MazeTokenizerModular properties against it
* corner_first_ndindex(n) for n = 1..50 against the reference ordering, the docstring examples, and the prefix
  property for all 1225 pairs n < m
* MazeTokenizerModular.encode/decode (static and bound, list / str / tuple / joined) on every single token and id,
  all pairs over a boundary alphabet, all triples over a smaller one, empty and whole-vocabulary sequences
* unknown tokens / ids alone and at every position of a short valid sequence -> TokenError
* legacy MazeTokenizer: 3 modes x max_grid_size 1..50: duplicate-free, map inverse, row-major order, every single
  token / id, pairs over the tokenizer's own boundary alphabet, unknown tokens / ids; corner-first prefix for all pairs
"""
import hashlib
import json
import itertools
import re

# --------------------------------------------------------------------------------------------- reference model
# literal re-statement of the published layout (maze_dataset/constants.py: SPECIAL_TOKENS, _VOCAB_FIELDS)
SPECIALS = ["<ADJLIST_START>", "<ADJLIST_END>", "<TARGET_START>", "<TARGET_END>", "<ORIGIN_START>", "<ORIGIN_END>",
            "<PATH_START>", "<PATH_END>", "<-->", ";", "<PADDING>"]
DELIMS = ["(", ",", ")", "=", "||", ":", "THEN", "-", "<UNK>"]
TARGET_LETTERS = ["TARGET_" + ch for ch in "ABCDEFGHIJKLMNOPQRSTUVWXYZ"]
TARGET_WORDS = ["TARGET_NORTH", "TARGET_SOUTH", "TARGET_EAST", "TARGET_WEST", "TARGET_NORTHEAST", "TARGET_NORTHWEST",
                "TARGET_SOUTHEAST", "TARGET_SOUTHWEST", "TARGET_CENTER"]
PATH_WORDS = ["NORTH", "SOUTH", "EAST", "WEST", "FORWARD", "BACKWARD", "LEFT", "RIGHT", "STAY"]
ADJ_WORDS = ["STEP", "ADJ_GROUP", "&", "<XX>"]

VOCAB_SHA256 = "bffa6d2bf5d637de5ba69a11d534041944d1f33bad67a94a82f76ff3646e859c"
"sha256 of '\\n'.join(VOCAB_LIST) at the baseline commit -- an id never changes"

MODES = ("AOTP_UT_rasterized", "AOTP_UT_uniform", "AOTP_CTT_indexed")
COORD_RE = re.compile(r"^\((\d+),(\d+)\)$")


def ref_corner_first(n):
    """corner-first order of the n x n cells: shell by shell (shell = max coordinate), inside a shell by the cell itself
    when its row is even and by the transposed cell when its row is odd, ties in row-major order"""
    out = []
    for shell in range(n):
        members = []
        for a in range(n):          # row-major walk over the shell: this is the tie order
            for b in range(n):
                if max(a, b) == shell:
                    members.append((a, b))
        keyed = []
        for pos, (a, b) in enumerate(members):
            k = (a, b) if a % 2 == 0 else (b, a)
            keyed.append((k, pos, (a, b)))
        keyed.sort()
        out.extend(cell for _, _, cell in keyed)
    return out


def ref_blocks():
    return [
        ("specials", SPECIALS),
        ("delimiters", DELIMS),
        ("target_letters", TARGET_LETTERS),
        ("target_words", TARGET_WORDS),
        ("path_words", PATH_WORDS),
        ("positive_ints", ["+%d" % i for i in range(256)]),
        ("coord_tuple_ints", ["%d" % i for i in range(128)]),
        ("negative_ints", ["%d" % i for i in range(-256, 0)]),
        ("adjacency_words", ADJ_WORDS),
        ("reserves", ["<RESERVE_%d>" % i for i in range(708, 1596)]),
        ("coords", ["(%d,%d)" % c for c in ref_corner_first(50)]),
    ]


_REF = None


def ref():
    """(REF list, block name per position, [(name, lo, hi)])"""
    global _REF
    if _REF is None:
        lst, names, spans = [], [], []
        for name, toks in ref_blocks():
            spans.append((name, len(lst), len(lst) + len(toks)))
            lst.extend(toks)
            names.extend([name] * len(toks))
        # harness self-consistency: the literal layout is the pinned baseline (never depends on the tree under test)
        assert len(lst) == 4096 and len(set(lst)) == 4096, "reference layout broken"
        assert hashlib.sha256("\n".join(lst).encode()).hexdigest() == VOCAB_SHA256, "reference layout != pinned hash"
        _REF = (lst, names, spans)
    return _REF


def block_of(i):
    names = ref()[1]
    return names[i] if 0 <= i < len(names) else "outside"


def ref_legacy(mode, g):
    """reference legacy vocabulary; only used for what the statement fixes (coordinate order in row-major mode)"""
    if mode == "AOTP_UT_rasterized":
        return ["(%d,%d)" % (a, b) for a in range(g) for b in range(g)]
    if mode == "AOTP_UT_uniform":
        return ["(%d,%d)" % c for c in ref_corner_first(g)]
    return None


# --------------------------------------------------------------------------------------------- alphabets
def boundary_ids(size):
    """deterministic boundary alphabet over ids: first/last of every block, then neighbours, then coordinate-shell
    boundaries, then an even spread, until `size` ids"""
    _, _, spans = ref()
    picks = []

    def add(i):
        if 0 <= i < 4096 and i not in picks and len(picks) < size:
            picks.append(i)

    for _, lo, hi in spans:
        add(lo)
        add(hi - 1)
    for _, lo, hi in spans:
        add(lo + 1)
        add(hi - 2)
    base = spans[-1][1]
    for n in (1, 2, 3, 4, 9, 10, 11, 49):   # first / last cell of coordinate shells (single/double digit changes)
        add(base + n * n)
        add(base + (n + 1) * (n + 1) - 1)
    k = 0
    while len(picks) < size:
        add((k * 977 + 31) % 4096)
        k += 1
    return picks


UNKNOWN_TOKENS = ["(50,50)", "(49,50)", "(50,0)", "+256", "128", "-257", "<NOPE>", "(0, 0)", "<RESERVE_707>",
                  "<RESERVE_1596>", "target_a", "<pad>", "(0,0) ", "((0,0)", "+00", "00"]
"not in the vocabulary; (0, 0) and '(0,0) ' are only unknown as list items (string input is split on whitespace)"

UNKNOWN_IDS_FIXED = [-1, -2, -4095, -4096, -4097, -(10 ** 6), 4096, 4097, 10 ** 6, 2 ** 31, 2 ** 63]


def id_class(i, n):
    if i >= n:
        return "id_too_large"
    if -n <= i < 0:
        return "negative_id"
    if i < -n:
        return "negative_id_below_minus_len"
    return "valid"


# --------------------------------------------------------------------------------------------- library access
def lib():
    import maze_dataset
    from maze_dataset.tokenization import MazeTokenizer, MazeTokenizerModular, TokenizationMode
    from maze_dataset.tokenization.maze_tokenizer import TokenError

    return maze_dataset, MazeTokenizer, MazeTokenizerModular, TokenizationMode, TokenError


_MOD_INSTANCE = None


def modular_sites():
    """[(site name, encode, decode)] -- the static functions and the methods of a default instance"""
    global _MOD_INSTANCE
    _, _, MTM, _, _ = lib()
    if _MOD_INSTANCE is None:
        _MOD_INSTANCE = MTM()
    return [("MazeTokenizerModular", MTM.encode, MTM.decode), ("MazeTokenizerModular()", _MOD_INSTANCE.encode, _MOD_INSTANCE.decode)]


def call(fn, *a, **kw):
    try:
        return ("ok", fn(*a, **kw))
    except BaseException as e:  # noqa: BLE001 - the oracle decides which exceptions are acceptable
        if isinstance(e, (KeyboardInterrupt, SystemExit, MemoryError)):
            raise
        return ("exc", e)


# --------------------------------------------------------------------------------------------- case: layout
def case_layout(res):
    md, _, MTM, _, _ = lib()
    from maze_dataset.constants import VOCAB, VOCAB_LIST, VOCAB_TOKEN_TO_INDEX

    REF, names, spans = ref()
    rd = dict(kind="layout")
    res.ev()
    if not isinstance(VOCAB_LIST, list) or len(VOCAB_LIST) != 4096:
        res.fail("C14|VOCAB_LIST|length", f"VOCAB_LIST is a {type(VOCAB_LIST).__name__} of length {len(VOCAB_LIST)}, expected a list of 4096", rd)
    # every position
    for i in range(4096):
        res.ev()
        got = VOCAB_LIST[i] if i < len(VOCAB_LIST) else None
        if type(got) is not str or got != REF[i]:
            res.fail(f"C14|VOCAB_LIST|position|{names[i]}",
                     f"VOCAB_LIST[{i}] = {got!r}, published layout has {REF[i]!r} (block {names[i]})", rd)
        res.nontrivial(("pos", i, REF[i]))
    for name, lo, hi in spans:
        res.add("blocks", (name, lo, hi))
    # duplicate-free
    res.ev()
    seen = {}
    for i, t in enumerate(VOCAB_LIST):
        if t in seen:
            res.fail(f"C14|VOCAB_LIST|duplicate|{block_of(i)}", f"VOCAB_LIST[{seen[t]}] == VOCAB_LIST[{i}] == {t!r}", rd)
            break
        seen[t] = i
    # pinned hash
    res.ev()
    h = hashlib.sha256("\n".join(map(str, VOCAB_LIST)).encode()).hexdigest()
    if h != VOCAB_SHA256:
        res.fail("C14|VOCAB_LIST|sha256", f"sha256 of the joined vocabulary is {h}, pinned baseline {VOCAB_SHA256}: some id changed", rd)
    # token -> id map is the inverse of the list
    res.ev()
    if not isinstance(VOCAB_TOKEN_TO_INDEX, dict) or len(VOCAB_TOKEN_TO_INDEX) != 4096:
        res.fail("C14|VOCAB_TOKEN_TO_INDEX|size", f"VOCAB_TOKEN_TO_INDEX has {len(VOCAB_TOKEN_TO_INDEX)} entries, expected 4096", rd)
    for i in range(4096):
        res.ev()
        got = VOCAB_TOKEN_TO_INDEX.get(REF[i], None)
        if got != i or isinstance(got, bool):
            res.fail(f"C14|VOCAB_TOKEN_TO_INDEX|not_inverse|{names[i]}", f"VOCAB_TOKEN_TO_INDEX[{REF[i]!r}] = {got!r}, expected {i}", rd)
    for t, i in VOCAB_TOKEN_TO_INDEX.items():
        if not (isinstance(i, int) and 0 <= i < len(VOCAB_LIST) and VOCAB_LIST[i] == t):
            res.fail("C14|VOCAB_TOKEN_TO_INDEX|extra_entry", f"VOCAB_TOKEN_TO_INDEX[{t!r}] = {i!r} but VOCAB_LIST has no such token there", rd)
            break
    # the public dataclass and the tokenizer's views are this same vocabulary
    res.ev()
    vv = list(VOCAB.values())
    if vv != list(VOCAB_LIST):
        k = next((j for j, (a, b) in enumerate(zip(vv, VOCAB_LIST)) if a != b), min(len(vv), len(VOCAB_LIST)))
        res.fail("C14|VOCAB|values_differ_from_list", f"list(VOCAB.values()) differs from VOCAB_LIST at position {k}", rd)
    res.ev()
    if list(md.VOCAB_LIST) != list(VOCAB_LIST) or dict(md.VOCAB_TOKEN_TO_INDEX) != dict(VOCAB_TOKEN_TO_INDEX):
        res.fail("C14|maze_dataset.VOCAB_LIST|differs_from_constants", "maze_dataset.VOCAB_LIST / VOCAB_TOKEN_TO_INDEX differ from maze_dataset.constants", rd)
    res.ev()
    t = MTM()
    ta, tm, vs, pad = t.token_arr, t.tokenizer_map, t.vocab_size, t.padding_token_index
    if list(ta) != REF or dict(tm) != {tok: i for i, tok in enumerate(REF)} or vs != 4096 or pad != REF.index("<PADDING>"):
        res.fail("C14|MazeTokenizerModular.token_arr|differs", f"token_arr/tokenizer_map/vocab_size/padding_token_index = "
                 f"(len {len(ta)}, len {len(tm)}, {vs}, {pad}) do not describe the published vocabulary (4096, pad id 10)", rd)
    res.sample(dict(kind="layout", blocks=[[n, lo, hi] for n, lo, hi in spans], first=VOCAB_LIST[:3], last=VOCAB_LIST[-3:]))


# --------------------------------------------------------------------------------------------- case: corner-first
DOC_EXAMPLES = {
    1: [(0, 0)],
    2: [(0, 0), (0, 1), (1, 0), (1, 1)],
    3: [(0, 0), (0, 1), (1, 0), (1, 1), (0, 2), (2, 0), (1, 2), (2, 1), (2, 2)],
}


def case_corner_first(res):
    from maze_dataset.utils import corner_first_ndindex

    rd = dict(kind="corner_first")
    got = {}
    for n in range(1, 51):
        res.ev()
        g = [tuple(int(v) for v in c) for c in corner_first_ndindex(n)]
        got[n] = g
        want = ref_corner_first(n)
        cls = "n<=3" if n <= 3 else ("n<=9" if n <= 9 else "n>=10")
        if sorted(g) != [(a, b) for a in range(n) for b in range(n)]:
            res.fail(f"C14|corner_first_ndindex|not_a_permutation|{cls}", f"corner_first_ndindex({n}) is not a duplicate-free list of all {n}x{n} cells", rd)
        elif g != want:
            k = next(j for j in range(len(g)) if g[j] != want[j])
            res.fail(f"C14|corner_first_ndindex|order|{cls}", f"corner_first_ndindex({n})[{k}] = {g[k]}, corner-first order has {want[k]}", rd)
        if n in DOC_EXAMPLES and g != DOC_EXAMPLES[n]:
            res.fail("C14|corner_first_ndindex|docstring_example", f"corner_first_ndindex({n}) = {g}, docstring says {DOC_EXAMPLES[n]}", rd)
        res.nontrivial(("cfn", n))
    for n in range(1, 51):
        for m in range(n + 1, 51):
            res.ev()
            if got[m][: n * n] != got[n]:
                k = next(j for j in range(n * n) if got[m][j] != got[n][j])
                res.fail("C14|corner_first_ndindex|prefix", f"corner_first_ndindex({n}) is not a prefix of corner_first_ndindex({m}): "
                         f"position {k} is {got[n][k]} vs {got[m][k]}", rd)
            res.nontrivial(("cfn_prefix", n, m))
    res.count("corner_first_prefix_pairs", 50 * 49 // 2)


# --------------------------------------------------------------------------------------------- case: modular sequences
def seq_class(ids):
    return {0: "empty", 1: "single", 2: "pair", 3: "triple"}.get(len(ids), "long")


def check_valid_seq(res, family, site, enc, dec, ids, toks, rd):
    """ids <-> toks (reference pairing) through every input/output form of one encode/decode pair"""
    sc = seq_class(ids)
    joined = " ".join(toks)

    def judge(fn_name, form, out, want, where):
        res.ev()
        if out[0] == "exc":
            res.fail(f"C14|{family}.{fn_name}|valid_{'empty' if sc == 'empty' else 'sequence'}|{form}|raises|{type(out[1]).__name__}",
                     f"{site}.{fn_name}({where}) raised {type(out[1]).__name__}: {str(out[1])[:120]}; expected {want!r:.200}", rd)
        elif out[1] != want or type(out[1]) is not type(want):
            res.fail(f"C14|{family}.{fn_name}|valid_{'empty' if sc == 'empty' else 'sequence'}|{form}|wrong",
                     f"{site}.{fn_name}({where}) = {out[1]!r:.200}, expected {want!r:.200} ({sc})", rd)

    short = (lambda x: repr(x) if len(repr(x)) < 160 else repr(x)[:157] + "...")
    judge("encode", "list", call(enc, list(toks)), list(ids), short(toks))
    judge("encode", "str", call(enc, joined), list(ids), short(joined))
    judge("decode", "list", call(dec, list(ids)), list(toks), short(ids))
    judge("decode", "tuple", call(dec, tuple(ids)), list(toks), short(tuple(ids)))
    judge("decode", "joined", call(dec, list(ids), joined_tokens=True), joined, short(ids) + ", joined_tokens=True")
    # mutual inverses as compositions on the real implementation
    res.ev()
    a = call(dec, list(ids))
    if a[0] == "ok":
        b = call(enc, a[1])
        if b[0] != "ok" or b[1] != list(ids):
            res.fail(f"C14|{family}.encode(decode)|not_identity", f"{site}: encode(decode({short(ids)})) = {b[1]!r:.200}", rd)
    res.ev()
    a = call(enc, list(toks))
    if a[0] == "ok":
        b = call(dec, a[1])
        if b[0] != "ok" or b[1] != list(toks):
            res.fail(f"C14|{family}.decode(encode)|not_identity", f"{site}: decode(encode({short(toks)})) = {b[1]!r:.200}", rd)


def case_mod_seq(res, ids):
    REF = ref()[0]
    toks = [REF[i] for i in ids]
    for site, enc, dec in modular_sites():
        check_valid_seq(res, "MazeTokenizerModular", site, enc, dec, ids, toks, dict(kind="mod_seq", ids=list(ids)))
    res.nontrivial(("mod_seq", tuple(ids)))


def expect_token_error(res, key_site, site_desc, klass, fn, arg, arg_desc, rd, extra_kw=None):
    """one evaluation: fn(arg) must raise the library's TokenError"""
    TokenError = lib()[4]
    res.ev()
    out = call(fn, arg, **(extra_kw or {}))
    if out[0] == "ok":
        res.fail(f"C14|{key_site}|{klass}|accepted", f"{site_desc}({arg_desc}) returned {out[1]!r:.160} instead of raising TokenError", rd)
        return False
    if not isinstance(out[1], TokenError):
        res.fail(f"C14|{key_site}|{klass}|wrongexc|{type(out[1]).__name__}",
                 f"{site_desc}({arg_desc}) raised {type(out[1]).__name__}: {str(out[1])[:120]} instead of TokenError", rd)
        return False
    return True


def placements(ctx_items, bad):
    """the bad item alone and at every position of a short valid context"""
    yield [bad]
    for k in range(len(ctx_items) + 1):
        yield list(ctx_items[:k]) + [bad] + list(ctx_items[k:])


def case_mod_unknown_tokens(res):
    REF = ref()[0]
    context = [REF[0], REF[1596], REF[4095]]
    rd = dict(kind="mod_unknown_tokens")
    for site, enc, _ in modular_sites():
        for bad in UNKNOWN_TOKENS:
            assert bad not in REF
            for seq in placements(context, bad):
                expect_token_error(res, "MazeTokenizerModular.encode", site + ".encode", "unknown_token|list", enc, seq, repr(seq), rd)
                res.nontrivial(("unk_tok", site, "list", tuple(seq)))
                if all(p not in REF for p in bad.split()) and bad.split():
                    s = " ".join(seq)
                    expect_token_error(res, "MazeTokenizerModular.encode", site + ".encode", "unknown_token|str", enc, s, repr(s), rd)
                    res.nontrivial(("unk_tok", site, "str", s))
    res.sample(dict(kind="unknown_tokens", tokens=UNKNOWN_TOKENS))


def check_unknown_ids(res, key_site, site_desc, dec, vocab, id_list, rd, context_ids):
    """every unknown id alone and at every position of a valid context; ONE violation per (site, id class) listing every
    misbehaving id"""
    TokenError = lib()[4]
    n = len(vocab)
    bad_by_class = {}
    for bad in id_list:
        klass = id_class(bad, n)
        assert klass != "valid"
        for seq in placements(context_ids, bad):
            for kw in ({}, dict(joined_tokens=True)):
                res.ev()
                out = call(dec, seq, **kw)
                if out[0] == "ok":
                    bad_by_class.setdefault((klass, "accepted"), []).append((bad, seq, out[1]))
                elif not isinstance(out[1], TokenError):
                    bad_by_class.setdefault((klass, "wrongexc|" + type(out[1]).__name__), []).append((bad, seq, repr(out[1])[:80]))
            res.nontrivial(("unk_id", key_site, n, tuple(seq)))
    for (klass, symptom), lst in sorted(bad_by_class.items()):
        ids = sorted({b for b, _, _ in lst})
        alone = [(b, o) for b, s, o in lst if len(s) == 1]
        alone = list(dict((b, o) for b, o in alone).items())
        key = f"C14|{key_site}|{klass}" + ("" if symptom == "accepted" else "|" + symptom)
        res.fail(key, f"{site_desc} on a vocabulary of {n} tokens: ids {ids} ({klass}) are not in the vocabulary but "
                 + ("are decoded instead of raising TokenError" if symptom == "accepted" else f"raise {symptom.split('|')[1]} instead of TokenError")
                 + "; e.g. " + "; ".join(f"decode([{b}]) -> {o!r:.60}" for b, o in alone[:6])
                 + f"; {len(lst)} misbehaving calls (alone / inside a valid sequence, list and joined output)", rd)


def case_mod_unknown_ids(res):
    REF = ref()[0]
    for site, _, dec in modular_sites():
        check_unknown_ids(res, "MazeTokenizerModular.decode", site + ".decode", dec, REF, UNKNOWN_IDS_FIXED,
                          dict(kind="mod_unknown_ids"), [0, 1596, 4095])
    res.sample(dict(kind="unknown_ids", ids=[str(i) for i in UNKNOWN_IDS_FIXED]))


# --------------------------------------------------------------------------------------------- case: legacy
def legacy_alphabet(n_special, n, cap):
    """boundary positions of a legacy vocabulary of n tokens whose first n_special are the special tokens"""
    picks = []
    for i in (0, 1, n_special - 1, n_special, n_special + 1, n_special + 2, n_special + 3, n_special + 4, n - 3, n - 2, n - 1, n // 2,
              n_special + 9, n_special + 10, n_special + 99, n_special + 100, n_special + 101):
        if 0 <= i < n and i not in picks:
            picks.append(i)
    return picks[:cap]


def case_legacy(res, mode, g, tier):
    _, MT, _, TM, _ = lib()
    rd = dict(kind="legacy", mode=mode, g=g, tier=tier)
    tok = MT(tokenization_mode=TM[mode], max_grid_size=g)
    arr = tok.token_arr
    tmap = tok.tokenizer_map
    gcls = "g1" if g == 1 else ("g<=10" if g <= 10 else "g>10")
    site = f"MazeTokenizer({mode}, g={g})"
    res.ev()
    if not isinstance(arr, list) or not all(type(t) is str for t in arr) or len(arr) == 0:
        res.fail(f"C14|MazeTokenizer.token_arr|{mode}|not_a_token_list", f"{site}.token_arr is not a non-empty list of str", rd)
        return
    n = len(arr)
    # duplicate-free
    res.ev()
    first = {}
    for i, t in enumerate(arr):
        if t in first:
            res.fail(f"C14|MazeTokenizer.token_arr|{mode}|duplicate|{gcls}", f"{site}.token_arr[{first[t]}] == token_arr[{i}] == {t!r}", rd)
            break
        first[t] = i
    # map is the inverse of the list
    res.ev()
    if not isinstance(tmap, dict) or len(tmap) != len(set(arr)):
        res.fail(f"C14|MazeTokenizer.tokenizer_map|{mode}|size", f"{site}.tokenizer_map has {len(tmap)} entries for {len(set(arr))} distinct tokens", rd)
    for i, t in enumerate(arr):
        res.ev()
        got = tmap.get(t, None)
        if got != i or isinstance(got, bool):
            res.fail(f"C14|MazeTokenizer.tokenizer_map|{mode}|not_inverse|{gcls}", f"{site}.tokenizer_map[{t!r}] = {got!r}, token_arr has it at {i}", rd)
    for t, i in tmap.items():
        if not (isinstance(i, int) and not isinstance(i, bool) and 0 <= i < n and arr[i] == t):
            res.fail(f"C14|MazeTokenizer.tokenizer_map|{mode}|extra_entry", f"{site}.tokenizer_map[{t!r}] = {i!r} but token_arr has no such token there", rd)
            break
    res.ev()
    if tok.vocab_size != n:
        res.fail(f"C14|MazeTokenizer.vocab_size|{mode}", f"{site}.vocab_size = {tok.vocab_size}, token_arr has {n}", rd)
    # row-major mode lists the coordinates in row-major order
    if mode == "AOTP_UT_rasterized":
        res.ev()
        coords = [t for t in arr if COORD_RE.match(t)]
        want = ref_legacy(mode, g)
        if coords != want:
            k = next((j for j in range(min(len(coords), len(want))) if coords[j] != want[j]), min(len(coords), len(want)))
            res.fail(f"C14|MazeTokenizer.token_arr|{mode}|not_row_major|{gcls}",
                     f"{site}: coordinate tokens are {coords[:12]}..., row-major order has {want[:12]}... (first difference at coordinate #{k})", rd)
    # codec on this vocabulary: every single token / id, whole vocabulary, pairs over the boundary alphabet
    n_special = len(SPECIALS)
    seqs = [[i] for i in range(n)] + [list(range(n)), list(range(n - 1, -1, -1)), []]
    alpha = legacy_alphabet(n_special, n, 12 if tier == "quick" else 17)
    seqs += [[a, b] for a in alpha for b in alpha]
    for ids in seqs:
        toks = [arr[i] for i in ids]
        check_valid_seq(res, "MazeTokenizer", site, tok.encode, tok.decode, ids, toks, rd)
        res.nontrivial(("legacy_seq", mode, g, tuple(ids) if len(ids) < 4 else ("long", len(ids), ids[0] if ids else None)))
    # unknown tokens
    context = [arr[0], arr[n - 1]]
    unknown = ["<NOPE>", "<UNK>", "(%d,0)" % g, "(0,%d)" % g, "(%d,%d)" % (g, g), "%d" % g, "(0, 0)", "-1", "<padding>"]
    unknown += ["(0,0)", "(0"] if mode == "AOTP_CTT_indexed" else ["(", "0"]
    for bad in unknown:
        if bad in first:
            # a token that must be foreign to this vocabulary (an out-of-grid coordinate, a made-up word) is listed in it
            res.fail(f"C14|MazeTokenizer.token_arr|{mode}|foreign_token_listed|{gcls}", f"{site}.token_arr lists {bad!r} (position {first[bad]}), which is not a token of a "
                     f"{g}x{g} vocabulary", rd)
            continue
        for seq in placements(context, bad):
            expect_token_error(res, "MazeTokenizer.encode", site + ".encode", "unknown_token|list", tok.encode, seq, repr(seq), rd)
            res.nontrivial(("legacy_unk_tok", mode, g, tuple(seq)))
            if bad.split() and all(p not in first for p in bad.split()):
                s = " ".join(seq)
                expect_token_error(res, "MazeTokenizer.encode", site + ".encode", "unknown_token|str", tok.encode, s, repr(s), rd)
    # unknown ids
    ids = sorted(set(UNKNOWN_IDS_FIXED + [n, n + 1, -n, -n - 1, -n + 1 if n > 1 else -n]))
    ids = [i for i in ids if id_class(i, n) != "valid"]
    check_unknown_ids(res, "MazeTokenizer.decode", site + ".decode", tok.decode, arr, ids, rd, [0, n - 1])
    res.add("legacy_tokenizers", (mode, g, n))
    if g in (1, 3, 50):
        res.sample(dict(kind="legacy", mode=mode, g=g, vocab_size=n, head=arr[n_special:n_special + 6], tail=arr[-2:]))


def case_legacy_prefix(res):
    """corner-first mode: vocabulary(n) is a prefix of vocabulary(m) for all 1 <= n < m <= 50 (and, for contrast, the
    row-major mode is counted as NOT having this property from n=2 on, which shows the test can tell the two apart)"""
    _, MT, _, TM, _ = lib()
    rd = dict(kind="legacy_prefix")
    arrs = {g: list(MT(tokenization_mode=TM["AOTP_UT_uniform"], max_grid_size=g).token_arr) for g in range(1, 51)}
    for n in range(1, 51):
        for m in range(n + 1, 51):
            res.ev()
            a, b = arrs[n], arrs[m]
            if b[: len(a)] != a:
                k = next((j for j in range(min(len(a), len(b))) if a[j] != b[j]), min(len(a), len(b)))
                cls = "adjacent" if m == n + 1 else "distant"
                res.fail(f"C14|MazeTokenizer.token_arr|AOTP_UT_uniform|not_prefix|{cls}",
                         f"vocabulary for max_grid_size={n} is not a prefix of the one for {m}: position {k} holds "
                         f"{a[k] if k < len(a) else None!r} vs {b[k] if k < len(b) else None!r}", rd)
            res.nontrivial(("legacy_prefix", n, m))
    rast = {g: list(MT(tokenization_mode=TM["AOTP_UT_rasterized"], max_grid_size=g).token_arr) for g in (2, 3)}
    res.count("rasterized_2_is_prefix_of_3", int(rast[3][: len(rast[2])] == rast[2]))
    res.count("legacy_prefix_pairs", 50 * 49 // 2)


# --------------------------------------------------------------------------------------------- tasks
def sizes(tier):
    return dict(pair_alpha=64 if tier == "quick" else 320, triple_alpha=16 if tier == "quick" else 48)


def task(t, res):
    part = t["part"]
    if part == "layout":
        case_layout(res)
        case_corner_first(res)
    elif part == "mod_single":
        for i in range(t["lo"], t["hi"]):
            case_mod_seq(res, [i])
        if t["lo"] == 0:
            case_mod_seq(res, [])
            case_mod_seq(res, list(range(4096)))
            case_mod_seq(res, list(range(4095, -1, -1)))
            res.sample(dict(kind="mod_seq", ids=[0, 1596, 4095], tokens=[ref()[0][i] for i in (0, 1596, 4095)]))
    elif part == "mod_pairs":
        alpha = boundary_ids(sizes(t["tier"])["pair_alpha"])
        for a in alpha[t["lo"]:t["hi"]]:
            for b in alpha:
                case_mod_seq(res, [a, b])
    elif part == "mod_triples":
        alpha = boundary_ids(sizes(t["tier"])["triple_alpha"])
        for a in alpha[t["lo"]:t["hi"]]:
            for b in alpha:
                for c in alpha:
                    case_mod_seq(res, [a, b, c])
    elif part == "mod_unknown":
        case_mod_unknown_tokens(res)
        case_mod_unknown_ids(res)
    elif part == "legacy":
        for g in t["gs"]:
            case_legacy(res, t["mode"], g, t["tier"])
    elif part == "legacy_prefix":
        case_legacy_prefix(res)
    elif part == "legacy_order":
        # the vocabularies of one mode built in another order than ascending (fresh interpreter): what was built for one size must
        # not shape the vocabulary of another
        from ..runner import Result

        sub = Result()
        for g in t["gs"]:
            case_legacy(sub, t["mode"], g, t["tier"])
        case_legacy_prefix(sub)
        res.evaluations += sub.evaluations
        res.distinct |= sub.distinct
        for f in sub.fails:
            # own keys: the same symptom found by an ordinary task (possibly in a worker that had built other sizes before) must not shadow
            # this one, which replays as a whole task in a fresh interpreter
            res.fail(f["key"] + "|sizes_built_in_non_ascending_order", f"vocabularies of {t['mode']} built in the order {t['gs']} in one fresh interpreter: " + f["what"],
                     dict(kind="after", task=t))
    elif part == "hashseed_child":
        # "a token's id never changes": not with the interpreter's hash seed either - the layout is judged in a child with another seed
        import os
        import subprocess
        import sys

        from ..runner import VERIF

        code = ("import sys,json,hashlib,warnings; warnings.filterwarnings('ignore'); sys.path.insert(0, sys.argv[1]); sys.path.insert(0, sys.argv[2]); "
                "from mzcheck import runner; runner.bind_repo(); from maze_dataset.constants import VOCAB_LIST, VOCAB_TOKEN_TO_INDEX; "
                "from maze_dataset.tokenization import MazeTokenizer, TokenizationMode; "
                "print('OUT ' + json.dumps(dict(sha=hashlib.sha256('\\n'.join(map(str, VOCAB_LIST)).encode()).hexdigest(), n=len(VOCAB_LIST), "
                "inv=all(VOCAB_TOKEN_TO_INDEX[t] == i for i, t in enumerate(VOCAB_LIST)), "
                "legacy={m.name: hashlib.sha256('\\n'.join(MazeTokenizer(tokenization_mode=m, max_grid_size=7).token_arr).encode()).hexdigest() for m in TokenizationMode})))")
        outs = {}
        for hs in t["seeds"]:
            env = dict(os.environ, PYTHONHASHSEED=str(hs))
            p = subprocess.run([sys.executable, "-c", code, str(VERIF), os.environ.get("MZ_REPO", "/repo")], capture_output=True, text=True, env=env, cwd="/var/tmp")
            line = [l for l in p.stdout.splitlines() if l.startswith("OUT ")]
            if not line:
                raise RuntimeError(f"hash-seed child failed: {p.stderr[-500:]}")
            outs[str(hs)] = json.loads(line[0][4:])
            res.ev()
        rd = dict(kind="after", task=t)
        for hs, o in outs.items():
            if o["sha"] != VOCAB_SHA256 or o["n"] != 4096 or not o["inv"]:
                res.fail("C14|VOCAB_LIST|sha256|other_hash_seed", f"in an interpreter with PYTHONHASHSEED={hs} the vocabulary hashes to {o['sha']} ({o['n']} tokens, inverse map ok: "
                         f"{o['inv']}); pinned {VOCAB_SHA256}", rd)
                break
        leg = {json.dumps(o["legacy"], sort_keys=True) for o in outs.values()}
        if len(leg) > 1:
            res.fail("C14|MazeTokenizer.token_arr|differs_between_hash_seeds", f"legacy vocabularies (max_grid_size=7) differ between interpreters with hash seeds {list(outs)}", rd)
        res.nontrivial(("hashseed", tuple(outs)))
    elif part == "access_paths":
        # every way of reading a special token / vocabulary entry (attribute, item by name, lower-case and pre-rename spellings,
        # iteration, len, membership) before the layout and the legacy vocabularies are built: reading must not change anything
        import warnings

        from maze_dataset.constants import SPECIAL_TOKENS, VOCAB

        with warnings.catch_warnings():
            warnings.simplefilter("ignore")
            for obj in (SPECIAL_TOKENS, VOCAB):
                names = list(obj.keys())
                for k in names[: (len(names) if obj is SPECIAL_TOKENS else 40)] + names[-5:]:
                    for spelled in (k, k.lower(), k.replace("ADJLIST", "ADJ_LIST"), k.replace("ADJLIST", "ADJ_LIST").lower()):
                        for read in (lambda: obj[spelled], lambda: getattr(obj, spelled), lambda: spelled in obj, lambda: obj.get(spelled) if hasattr(obj, "get") else None):
                            try:
                                read()
                            except Exception:  # noqa: BLE001 - an unknown spelling may be refused; it is only history
                                pass
                len(obj), list(obj.values()), list(obj.items()) if hasattr(obj, "items") else None
        case_layout(res)
        for mode in ("AOTP_UT_rasterized", "AOTP_UT_uniform", "AOTP_CTT_indexed"):
            for g in (1, 3, 12):
                case_legacy(res, mode, g, t["tier"])
    else:
        raise ValueError(part)
    if part != "layout":
        # "a token's id never changes": also not by using the codecs - the layout is judged again after everything this task did
        from ..runner import Result

        sub = Result()
        case_layout(sub)
        res.evaluations += sub.evaluations
        for f in sub.fails:
            res.fail(f["key"] + f"|after_{part}", f"after the {part} cases of this task ran in the same process: " + f["what"], dict(kind="after", task=t))


def run(ctx):
    sz = sizes(ctx.tier)
    tasks = [dict(part="layout"), dict(part="mod_unknown"), dict(part="legacy_prefix")]
    tasks += [dict(part="mod_single", lo=lo, hi=lo + 512) for lo in range(0, 4096, 512)]
    pa, ta = sz["pair_alpha"], sz["triple_alpha"]
    step = pa // (8 if ctx.quick else 16)
    tasks += [dict(part="mod_pairs", tier=ctx.tier, lo=lo, hi=min(pa, lo + step)) for lo in range(0, pa, step)]
    step = ta // (4 if ctx.quick else 16)
    tasks += [dict(part="mod_triples", tier=ctx.tier, lo=lo, hi=min(ta, lo + step)) for lo in range(0, ta, step)]
    for mode in MODES:
        for r in range(5):
            tasks.append(dict(part="legacy", tier=ctx.tier, mode=mode, gs=[g for g in range(1, 51) if g % 5 == r]))
    ctx.pmap("mzcheck.checks.c14", "task", tasks)
    desc = list(range(50, 0, -7)) + [11, 10, 9, 2, 1]
    zig = [x for a, b in zip(range(50, 25, -6), range(1, 26, 6)) for x in (a, b)]
    fresh_tasks = [dict(part="legacy_order", tier=ctx.tier, mode=mode, gs=gs) for mode in ("AOTP_UT_rasterized", "AOTP_UT_uniform", "AOTP_CTT_indexed") for gs in (desc, zig)]
    fresh_tasks.append(dict(part="access_paths", tier=ctx.tier))
    fresh_tasks.append(dict(part="hashseed_child", tier=ctx.tier, seeds=[1, 4242, "random"] if ctx.quick else [1, 2, 3, 4242, 99991, "random"]))
    ctx.pmap("mzcheck.checks.c14", "task", fresh_tasks, fresh=True)
    ctx.coverage.update(
        vocabulary_positions=4096, modular_single_ids=4096, modular_pair_alphabet=pa, modular_pairs=pa * pa,
        modular_triple_alphabet=ta, modular_triples=ta ** 3, modular_long_sequences=["empty", "0..4095", "4095..0"],
        unknown_tokens=UNKNOWN_TOKENS, unknown_ids=[str(i) for i in UNKNOWN_IDS_FIXED] + ["len", "len+1", "-len", "-len-1", "-len+1 (legacy)"],
        legacy_modes=list(MODES), legacy_max_grid_size="1..50", corner_first_n="1..50", prefix_pairs=1225,
        vocab_sha256=VOCAB_SHA256, encode_decode_sites=["MazeTokenizerModular (static)", "MazeTokenizerModular() (bound)", "MazeTokenizer (150 instances)"],
    )
    ctx.rule = ("every vocabulary position; every single token/id, all pairs over a boundary alphabet (first/last/neighbour of every block, "
                "coordinate-shell boundaries), all triples over a smaller one, empty and whole-vocabulary sequences, through "
                "encode(list|str) / decode(list|tuple|joined) of the static and the bound modular codec; unknown tokens/ids alone and at every "
                "position of a valid sequence; 3 legacy modes x max_grid_size 1..50 (every token, boundary pairs, unknowns); all 1225 (n<m) "
                "prefix pairs for corner_first_ndindex and for the corner-first legacy vocabulary. distinct = distinct (call site, input) cases")
    ctx.exhaustive = True
    ctx.assumptions += [
        "'all token sequences over the vocabulary' is covered for lengths 0,1 completely, length 2/3 over boundary alphabets and two length-4096 "
        "sequences; encode/decode are element-wise list comprehensions, so longer sequences add no new behaviour (code inspection, not proof)",
        "ids are Python ints (numpy / torch integer scalars are not enumerated)",
    ]


# --------------------------------------------------------------------------------------------- replay
def replay(d, res):
    if d.get("kind") == "after":
        task(d["task"], res)
        return
    k = d["kind"]
    if k == "layout":
        case_layout(res)
    elif k == "corner_first":
        case_corner_first(res)
    elif k == "mod_seq":
        case_mod_seq(res, [int(i) for i in d["ids"]])
    elif k == "mod_unknown_tokens":
        case_mod_unknown_tokens(res)
    elif k == "mod_unknown_ids":
        case_mod_unknown_ids(res)
    elif k == "legacy":
        case_legacy(res, d["mode"], int(d["g"]), d.get("tier", "quick"))
    elif k == "legacy_prefix":
        case_legacy_prefix(res)
    else:
        raise ValueError(k)
