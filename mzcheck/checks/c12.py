"""C12 Generation metadata tells the truth about reachability (DESIGN 5/C12)"""
from . import gencheck
from .c01 import finish


def run(ctx):
    tasks = gencheck.tasks_for(ctx.tier, "C12")
    ctx.pmap("mzcheck.checks.gencheck", "explore_task", tasks)
    ctx.pmap("mzcheck.checks.gencheck", "sequence_task", gencheck.sequence_tasks(ctx.tier, "C12"), fresh=True)
    ctx.pmap("mzcheck.checks.gencheck", "alias_task", [dict(which="C12")])
    ctx.pmap("mzcheck.checks.gencheck", "long_walk_task", [dict(which="C12", lengths=[k, k + 1, k + 2]) for k in ((1000, 6000, 30000) if ctx.quick else (1000, 6000, 30000, 100000, 300000))])
    finish(ctx, tasks)
    ctx.coverage["random_path_executions"] = ctx.res.counters.get("random_path_executions", 0)


def replay(d, res):
    gencheck.replay_case(d, res, "C12")
