"""C18, histories on one live configuration object.

"Its hash depends only on its serialized content" - not on what was asked of the object before. Every sequence (up to a depth) of
observations (hash / file name / serialize / summary) and in-place field changes on ONE live MazeDatasetConfig, starting from spec A
and moving its fields towards spec B, is executed. After every observation the answer must equal the answer of a freshly
constructed configuration with the same current field values (differential oracle: state reached through a history vs the same
state reached directly) and the literal reference composition of c18."""
import copy
import itertools
import json

from . import c18 as C

HIST_OBS = ["hash", "fname", "serialize", "summary"]
HIST_MUT = ["set:name", "set:grid_n", "set:n_mazes", "set:maze_ctor", "set:maze_ctor_kwargs", "set:endpoint_kwargs", "set:seed",
            "set:applied_filters", "inplace:applied_filters.append", "inplace:maze_ctor_kwargs.update", "inplace:endpoint_kwargs.update"]
ALPHABET = HIST_OBS + HIST_MUT


def pairs():
    return [(C.BASES[0], C.BASES[1]), (C.BASES[1], C.BASES[0])]


def fields_of(spec):
    from maze_dataset.generation.generators import GENERATORS_MAP

    name, g, n, gen, kwj, ep, seed, f = spec
    return dict(name=name, grid_n=g, n_mazes=n, maze_ctor=GENERATORS_MAP[gen], maze_ctor_kwargs=json.loads(kwj),
                endpoint_kwargs=copy.deepcopy(C.ENDPOINTS[ep]), seed=C.DEFAULT_SEED_VALUE if seed is None else seed,
                applied_filters=C.filters_of(f))


def apply_change(cfg, cur, op, B):
    """apply one in-place change to the live object and to the plain-dict model of its fields"""
    kind, what = op.split(":")
    if kind == "set":
        v = copy.deepcopy(B[what]) if what != "maze_ctor" else B[what]
        setattr(cfg, what, v)
        cur[what] = copy.deepcopy(v) if what != "maze_ctor" else v
    elif what == "applied_filters.append":
        rec = dict(name="path_length", args=(2,), kwargs={})
        cfg.applied_filters.append(copy.deepcopy(rec))
        cur["applied_filters"] = list(cur["applied_filters"]) + [rec]
    elif what == "maze_ctor_kwargs.update":
        cfg.maze_ctor_kwargs.update(do_forks=False)
        cur["maze_ctor_kwargs"] = dict(cur["maze_ctor_kwargs"], do_forks=False)
    elif what == "endpoint_kwargs.update":
        cfg.endpoint_kwargs.update(endpoints_not_equal=True)
        cur["endpoint_kwargs"] = dict(cur["endpoint_kwargs"], endpoints_not_equal=True)
    else:
        raise KeyError(op)


def observe(cfg, cur, op):
    """None if the live object's answer equals a fresh configuration's (and the reference composition), else a description"""
    from maze_dataset import MazeDatasetConfig

    fresh = MazeDatasetConfig(**{k: (copy.deepcopy(v) if k != "maze_ctor" else v) for k, v in cur.items()})
    if op == "hash":
        a, b = cfg.stable_hash_cfg(), fresh.stable_hash_cfg()
        if a != b:
            return f"stable_hash_cfg() ends in {a % 10 ** 8} but a fresh configuration with the same fields gives ...{b % 10 ** 8}"
        return None if a == C.ref_hash(fresh.serialize()) else "stable_hash_cfg() is not the sha256 of the serialized content"
    if op == "fname":
        a, b = cfg.to_fname(), fresh.to_fname()
        if a != b:
            return f"to_fname() = {a!r} but a fresh configuration with the same fields gives {b!r}"
        want = C.ref_fname(cur["name"], cur["grid_n"], cur["n_mazes"], cur["maze_ctor"].__name__, C.ref_hash(fresh.serialize()))
        return None if a == want else f"to_fname() = {a!r}, reference composition {want!r}"
    if op == "serialize":
        a, b = json.dumps(cfg.serialize(), default=str), json.dumps(fresh.serialize(), default=str)
        return None if a == b else "serialize() differs from a fresh configuration with the same fields"
    if op == "summary":
        a, b = json.dumps(cfg.summary(), default=str, sort_keys=True), json.dumps(fresh.summary(), default=str, sort_keys=True)
        return None if a == b else "summary() differs from a fresh configuration with the same fields"
    raise KeyError(op)


def fail_key(seq, k):
    """C18|history|<failing observation>|after_<last change>|observed_before_change=<observations made before that change>"""
    muts = [i for i in range(k) if ":" in seq[i]]
    last = muts[-1] if muts else None
    before = sorted({o for o in seq[: last if last is not None else 0] if ":" not in o})
    return f"C18|history|{seq[k]}|after_{seq[last] if last is not None else 'no_change'}|observed_before_change={'+'.join(before) or 'nothing'}"


def run_history(pair_idx, seq, res, only_last=False):
    A, B = pairs()[pair_idx]
    Bf, cur, cfg = fields_of(B), fields_of(A), C.make_cfg(A)
    for k, op in enumerate(seq):
        if ":" in op:
            apply_change(cfg, cur, op, Bf)
            continue
        if not only_last:
            res.ev()
        try:
            bad = observe(cfg, cur, op)
        except Exception as e:  # noqa: BLE001
            bad = f"raised {type(e).__name__}: {str(e)[:150]}"
        if bad and (not only_last or k == len(seq) - 1):
            res.fail(fail_key(seq, k), f"on one live configuration object (start {A}, values taken from {B}), history {list(seq[:k + 1])}: {bad}",
                     dict(kind="history", pair=pair_idx, seq=list(seq[:k + 1])))
            return False
    return True


def history_task(t, res):
    for d in range(1, t["depth"] + 1):
        for seq in itertools.product(ALPHABET, repeat=d):
            if seq[0] != t["first"] or not any(":" in o for o in seq):
                continue  # observation-only histories are the single-config obligations of c18
            full = list(seq) + ["hash", "fname", "serialize"]  # every history ends with a full observation
            if run_history(t["pair"], full, res):
                res.nontrivial(("hist", t["pair"], seq))
            res.count("histories")
    res.sample(dict(layer="history", start=list(pairs()[t["pair"]][0]), example=[t["first"], "set:grid_n", "hash", "fname", "serialize"]), cap=1)


def replay(d, res):
    run_history(d["pair"], list(d["seq"]), res, only_last=True)
