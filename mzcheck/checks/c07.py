"""C07 Legacy tokenization round-trips and agrees with its modular equivalent (DESIGN 5/C07)

Enumerated: tokenizers (3 legacy modes x max_grid_size in {None, n, 50}, the 3 TokenizationMode members themselves,
the 3 `MazeTokenizerModular.from_legacy` equivalents) x square mazes in which every row and column index occurs in a
connection (all such graphs on 2x2 and 3x3, every distinct 4x4 gen_dfs output, structured 11/12/20 grids) x kinds
(untargeted / targeted / solved) x answers of the adjacency shuffle (the library's RNG is owned: every shuffle is a
choice point) x input form (token list / one space-joined string).

Oracle: `cls.from_tokens(m.as_tokens(t), t)` has the same class, connection_list bytes+shape, start, end, solution;
legacy and modular tokens for the same maze and the same answers are identical outside the adjacency region and equal
as multisets of unordered edges inside; `MazeDataset.as_tokens(t, limit, join)` is the per-maze `as_tokens` of the
first min(limit, n) mazes in order under the same answers.
"""
from __future__ import annotations

import collections
import itertools
import time

import numpy as np

from .. import explore, refmodel as R
from ..choice import owned_rng
from ..runner import digest

MOD = "mzcheck.checks.c07"
MODES = ("AOTP_UT_rasterized", "AOTP_UT_uniform", "AOTP_CTT_indexed")

# token spellings the property itself refers to (values pinned by C14)
ADJ_START, ADJ_END, CONNECTOR, ENDLINE = "<ADJLIST_START>", "<ADJLIST_END>", "<-->", ";"


# ------------------------------------------------------------------ tokenizers
def all_tok_names():
    names = []
    for mode in MODES:
        names += [f"L:{mode}:none", f"L:{mode}:n", f"L:{mode}:50", f"E:{mode}", f"X:{mode}"]
    return names


ALL15 = all_tok_names()
BASE = ["L:AOTP_UT_rasterized:none", "L:AOTP_UT_uniform:n", "L:AOTP_CTT_indexed:50", "X:AOTP_UT_rasterized", "X:AOTP_CTT_indexed"]
TOKSETS = {"ALL15": ALL15, "BASE": BASE}
for _i, _mode in enumerate(MODES):
    TOKSETS[f"MODE{_i}"] = [t for t in ALL15 if t.split(":")[1] == _mode]
for _i, _t in enumerate(BASE):
    TOKSETS[f"BASE{_i}"] = [_t]

_TOK_CACHE: dict = {}


def make_tok(name: str, n: int):
    key = (name, n)
    if key not in _TOK_CACHE:
        from maze_dataset.tokenization import MazeTokenizer, MazeTokenizerModular, TokenizationMode

        parts = name.split(":")
        mode = TokenizationMode[parts[1]]
        if parts[0] == "E":
            t = mode
        elif parts[0] == "X":
            t = MazeTokenizerModular.from_legacy(mode)
        else:
            g = {"none": None, "n": n, "50": 50}[parts[2]]
            t = MazeTokenizer(tokenization_mode=mode, max_grid_size=g)
        _TOK_CACHE[key] = t
    return _TOK_CACHE[key]


def tokfam(name: str) -> str:
    p = name.split(":")
    return {"L": "legacy", "E": "mode-enum", "X": "modular"}[p[0]] + ("-UT" if "_UT_" in p[1] else "-CTT")


# ------------------------------------------------------------------ graphs
def spiral_cl(n):
    """one corridor spiralling inwards from (0,0): a spanning tree (path) of the n x n lattice"""
    seen = [[False] * n for _ in range(n)]
    order = []
    i = j = 0
    di, dj = 0, 1
    for _ in range(n * n):
        order.append((i, j))
        seen[i][j] = True
        ni, nj = i + di, j + dj
        if not (0 <= ni < n and 0 <= nj < n) or seen[ni][nj]:
            di, dj = dj, -di
            ni, nj = i + di, j + dj
        i, j = ni, nj
    cl = np.zeros((2, n, n), dtype=np.bool_)
    for (a, b), (c, d) in zip(order[:-1], order[1:]):
        if a != c:
            cl[0, min(a, c), b] = True
        else:
            cl[1, a, min(b, d)] = True
    return cl


def comb_cl(n):
    """row 0 is a corridor, every column hangs from it: a spanning tree"""
    cl = np.zeros((2, n, n), dtype=np.bool_)
    for j in range(n - 1):
        cl[1, 0, j] = True
    for i in range(n - 1):
        for j in range(n):
            cl[0, i, j] = True
    return cl


def dfs_cl(n, answers):
    from maze_dataset.generation.generators import GENERATORS_MAP

    with owned_rng():
        ex = explore.run_with(list(answers), lambda: GENERATORS_MAP["gen_dfs"](np.array((n, n))))
    if ex.exc is not None:
        raise ex.exc
    return np.array(ex.out.connection_list, dtype=np.bool_)


def graph_of(g):
    """g = ['bits', n, bits] | ['spiral', n] | ['comb', n] | ['dfs', n, answers]"""
    fam, n = g[0], int(g[1])
    if fam == "bits":
        return R.graph_from_bits(n, n, int(g[2]))
    if fam == "spiral":
        return spiral_cl(n)
    if fam == "comb":
        return comb_cl(n)
    if fam == "dfs":
        return dfs_cl(n, g[2])
    raise ValueError(g)


def index_condition(cl) -> bool:
    """every row index and every column index occurs in some connection (the property's restriction)"""
    _, r, c = cl.shape
    rows, cols = set(), set()
    for e in R.edge_set(cl):
        for (i, j) in e:
            rows.add(i)
            cols.add(j)
    return rows == set(range(r)) and cols == set(range(c))


def small_graphs(n):
    """(trees, connected cyclic, disconnected) bit codes among the graphs on n x n satisfying the index condition"""
    trees, cyc, dis = [], [], []
    for b, cl in R.all_graphs(n, n):
        if not index_condition(cl):
            continue
        adj = R.adjacency(cl)
        if R.is_connected(adj):
            (trees if R.n_edges(adj) == n * n - 1 else cyc).append(b)
        else:
            dis.append(b)
    return trees, cyc, dis


def dfs_outputs(n):
    """every distinct output of gen_dfs((n,n)) with default arguments: all RNG answer sequences"""
    from maze_dataset.generation.generators import GENERATORS_MAP

    outs = set()
    stat = {}

    def on(ex):
        if ex.exc is not None:
            raise ex.exc
        outs.add(R.bits_of(ex.out.connection_list))

    with owned_rng():
        stat = explore.explore_stateless(lambda: GENERATORS_MAP["gen_dfs"](np.array((n, n))), on)
    return sorted(outs), stat


def dfs_deviations(n, k):
    """default execution + k single-deviation executions (last answer at evenly spaced choice points of arity > 1)"""
    from maze_dataset.generation.generators import GENERATORS_MAP

    with owned_rng():
        ex = explore.run_with([], lambda: GENERATORS_MAP["gen_dfs"](np.array((n, n))))
    pts = [i for i, t in enumerate(ex.trace) if t[1] > 1]
    out = [[]]
    if k > 0 and pts:
        step = max(1, len(pts) // k)
        for i in pts[::step][:k]:
            out.append([0] * i + [ex.trace[i][1] - 1])
    return out


# ------------------------------------------------------------------ mazes (kinds)
def _pairs(n, adj):
    nb = sorted(adj[(0, 0)])[0] if adj[(0, 0)] else (0, 1)
    c = n // 2
    P = [((0, 0), (n - 1, n - 1)), ((n - 1, n - 2), (0, n - 1)), ((n - 1, n - 1), (n - 1, n - 1)), ((0, 0), nb),
         ((0, n - 1), (n - 1, 0)), ((c, c), (0, 0)), ((n - 2, n - 1), (c, 0)), ((n - 1, 0), (n - 1, n - 1))]
    return list(dict.fromkeys(P))


def mazes_of(g, cl, policy):
    """list of maze specs dict(g, kind, s, e, sol) for one graph"""
    n = cl.shape[1]
    out = [dict(g=g, kind="L")]
    if policy == "L":
        return out
    adj = R.adjacency(cl)
    if policy == "all":
        cells = R.cells(n, n)
        pairs = [(s, e) for s in cells for e in cells]
        for s, e in pairs:
            out.append(dict(g=g, kind="T", s=list(s), e=list(e)))
        for s, e in pairs:
            for p in sorted(R.all_shortest_paths(adj, s, e)):
                out.append(dict(g=g, kind="S", sol=[list(x) for x in p]))
        return out
    pairs = _pairs(n, adj)
    if policy in ("TS4", "LT4"):
        pairs = pairs[:4]
    for s, e in pairs:
        out.append(dict(g=g, kind="T", s=list(s), e=list(e)))
    if policy in ("some", "TS4"):
        for s, e in pairs:
            ps = R.all_shortest_paths(adj, s, e)
            if ps:
                out.append(dict(g=g, kind="S", sol=[list(x) for x in min(ps)]))
    return out


def build(ms, cl=None):
    from maze_dataset.maze import LatticeMaze, SolvedMaze, TargetedLatticeMaze

    if cl is None:
        cl = graph_of(ms["g"])
    cl = np.array(cl, dtype=np.bool_)
    if ms["kind"] == "L":
        return LatticeMaze(connection_list=cl)
    if ms["kind"] == "T":
        return TargetedLatticeMaze(connection_list=cl, start_pos=np.array(ms["s"]), end_pos=np.array(ms["e"]))
    return SolvedMaze(connection_list=cl, solution=np.array(ms["sol"]))


def kind_class(ms):
    if ms["kind"] == "L":
        return "untargeted"
    if ms["kind"] == "T":
        return "targeted(start==end)" if ms["s"] == ms["e"] else "targeted"
    k = len(ms["sol"])
    return "solved(1-cell path)" if k == 1 else ("solved(2-cell path)" if k == 2 else "solved")


def digits_class(ms):
    return "2-digit" if int(ms["g"][1]) > 10 else "1-digit"


def fingerprint(ms):
    g = ms["g"]
    return (tuple(g[:2]) + (repr(g[2:]),), ms["kind"], repr(ms.get("s")), repr(ms.get("e")), repr(ms.get("sol")))


def describe(ms):
    g = ms["g"]
    gd = f"{g[0]} {g[1]}x{g[1]}" + (f" bits={g[2]}" if g[0] == "bits" else (f" answers={g[2]}" if g[0] == "dfs" else ""))
    if ms["kind"] == "L":
        return f"LatticeMaze[{gd}]"
    if ms["kind"] == "T":
        return f"TargetedLatticeMaze[{gd}, start={ms['s']}, end={ms['e']}]"
    sol = ms["sol"]
    return f"SolvedMaze[{gd}, solution={sol if len(sol) <= 8 else str(sol[:4])[:-1] + ', ..., ' + str(sol[-2:])[1:]}]"


# ------------------------------------------------------------------ shuffle answers
FLIP_KINDS = ("np.random.rand[]", "rng.permuted")
PERM_KINDS = ("np.random.shuffle", "rng.shuffle", "random.shuffle")


def answer_lists(policy, trace, n_edges):
    """non-default answer sequences derived from the default execution's trace (policies 'lite' and 'few')"""
    out = []
    special = {}
    for i, (kind, a, _) in enumerate(trace):
        if a <= 1:
            continue
        if kind in FLIP_KINDS:
            full = a == 2 ** n_edges
            if full:
                singles, allf = [2 ** j for j in range(n_edges)], a - 1
            else:  # bounded family: none, all, each single, alternating, alternating'
                singles, allf = list(range(2, a - 2)), 1
            if policy == "few":
                picks = [allf]
            elif not full and len(singles) > 16:
                picks = [allf, singles[0], singles[-1], a - 2, a - 1]
            else:
                picks = sorted(set(singles + [allf] + ([] if full else [a - 2, a - 1])))
            special["flip"] = (i, allf)
        elif kind in PERM_KINDS:
            full = n_edges <= 4
            rev = a - 1 if full else 1
            if policy == "few":
                picks = [rev]
            elif a <= 64:
                picks = list(range(1, a))
            else:
                picks = [1, 2, a - 1]
            special["perm"] = (i, rev)
        else:
            picks = [a - 1]
        for x in picks:
            out.append([0] * i + [x])
    if "flip" in special and "perm" in special and special["flip"][0] < special["perm"][0]:
        (i, x), (j, y) = special["flip"], special["perm"]
        both = [0] * (j + 1)
        both[i], both[j] = x, y
        out.append(both)
    return out


def run_policy(fn, policy, n_edges, cb):
    """call cb(Execution) for every answer sequence of the policy; returns number of executions"""
    if policy == "all":
        st = explore.explore_stateless(fn, cb)
        assert not st["capped"]
        return st["executions"]
    if policy == "dev1":
        st = explore.explore_stateless(fn, cb, dev=1)
        assert not st["capped"]
        return st["executions"]
    ex0 = explore.run_with([], fn)
    cb(ex0)
    k = 1
    if policy in ("lite", "few"):
        for a in answer_lists(policy, ex0.trace, n_edges):
            cb(explore.run_with(a, fn))
            k += 1
    return k


# ------------------------------------------------------------------ oracles
def roundtrip_symptoms(m, m2):
    """property: same kind, identical connection structure, start, end, solution"""
    bad = []
    if type(m2).__name__ != type(m).__name__:
        return [f"class {type(m2).__name__} != {type(m).__name__}"]
    a, b = m.connection_list, getattr(m2, "connection_list", None)
    if not isinstance(b, np.ndarray) or b.shape != a.shape:
        bad.append(f"connection_list shape {getattr(b, 'shape', None)} != {a.shape}")
    elif b.tobytes() != a.tobytes():
        bad.append(f"connections differ: edge bits {R.bits_of(b)} != {R.bits_of(a)}" if a.shape[1] <= 4 else
                   f"connections differ ({int(np.sum(a != b))} entries)")
    for attr in ("start_pos", "end_pos", "solution"):
        if hasattr(m, attr):
            x, y = getattr(m, attr), getattr(m2, attr, None)
            if y is None or np.asarray(y).tolist() != np.asarray(x).tolist():
                ys = None if y is None else np.asarray(y).tolist()
                bad.append(f"{attr} {str(ys)[:80]} != {str(np.asarray(x).tolist())[:80]}")
    return bad


def symptom_tag(bad):
    tags = []
    for b in bad:
        tags.append(b.split(" ")[0])
    return "+".join(dict.fromkeys(tags))


def judge_roundtrip(ms, m, tname, tok, ex, res, space=""):
    """one as_tokens execution: parse back from both input forms. returns tokens or None"""
    base = dict(kind="rt", m=ms, tok=tname, answers=ex.answers)
    kc, dc, fam = kind_class(ms), digits_class(ms), tokfam(tname)
    if ex.exc is not None:
        res.ev()
        res.fail(f"C07|as_tokens|{fam}|{kc}|{dc}|{type(ex.exc).__name__}",
                 f"{describe(ms)}.as_tokens({tname}) raised {type(ex.exc).__name__}: {str(ex.exc)[:300]} (shuffle answers {ex.answers})", base)
        return None
    tokens = ex.out
    if not isinstance(tokens, list) or not all(isinstance(x, str) for x in tokens):
        res.ev()
        res.fail(f"C07|as_tokens|{fam}|{kc}|{dc}|not-a-list-of-str", f"{describe(ms)}.as_tokens({tname}) returned {str(tokens)[:200]}", base)
        return None
    cls = type(m)
    outcome = {}
    for form in ("list", "string"):
        res.ev()
        inp = list(tokens) if form == "list" else " ".join(tokens)
        try:
            m2 = cls.from_tokens(inp, tok)
        except Exception as e:  # noqa: BLE001
            outcome[form] = (f"raises-{type(e).__name__}", f"raised {type(e).__name__}: {str(e)[:300]}")
            continue
        bad = roundtrip_symptoms(m, m2)
        if bad:
            outcome[form] = (symptom_tag(bad), "; ".join(bad))
    if outcome:
        if len(outcome) == 2 and outcome["list"][0] == outcome["string"][0]:
            items = [("list+string", outcome["list"])]
        else:
            items = list(outcome.items())
        for form, (tag, msg) in items:
            kcl = "any kind" if tag in ("connections", "connection_list") else kc  # the adjacency region does not depend on the kind
            res.fail(f"C07|roundtrip|{fam}|{kcl}|{dc}|{form}|{tag}",
                     f"{type(m).__name__}.from_tokens(<{form}>, {tname}) of {describe(ms)}.as_tokens({tname}) [shuffle answers {ex.answers}]: {msg}; "
                     f"tokens: {' '.join(tokens)[:400]}", base)
    res.nontrivial((fingerprint(ms), digest(tokens)))
    return tokens


def split_regions(tokens):
    """(tokens outside the adjacency region incl. its two markers, Counter of unordered edges inside) or raises ValueError"""
    i, j = tokens.index(ADJ_START), tokens.index(ADJ_END)
    if not i < j:
        raise ValueError("adjacency markers out of order")
    outside = tokens[: i + 1] + tokens[j:]
    edges = collections.Counter()
    cur = []
    for tk in tokens[i + 1: j] + [None]:
        if tk == ENDLINE or tk is None:
            if cur:
                if cur.count(CONNECTOR) != 1:
                    raise ValueError(f"edge without exactly one connector: {cur}")
                k = cur.index(CONNECTOR)
                a, b = tuple(cur[:k]), tuple(cur[k + 1:])
                if not a or not b:
                    raise ValueError(f"edge with an empty side: {cur}")
                edges[frozenset((a, b)) if a != b else frozenset((a,))] += 1
            elif tk == ENDLINE:
                raise ValueError("empty edge before ';'")
            cur = []
        else:
            cur.append(tk)
    return outside, edges


def agreement_symptom(leg, mod):
    try:
        lo, le = split_regions(leg)
    except ValueError as e:
        return "legacy-unparsable", f"legacy adjacency region: {e}"
    try:
        mo, me = split_regions(mod)
    except ValueError as e:
        return "modular-unparsable", f"modular adjacency region: {e}"
    if lo != mo:
        return "outside", f"tokens outside the adjacency region differ: legacy {' '.join(lo)[:200]} | modular {' '.join(mo)[:200]}"
    if le != me:
        d1, d2 = le - me, me - le
        return "edges", (f"adjacency edges differ as multisets: only legacy {[sorted(map(' '.join, e)) for e in d1][:4]}, "
                         f"only modular {[sorted(map(' '.join, e)) for e in d2][:4]}")
    return None


def judge_agreement(ms, tname, answers, leg, mod, res):
    res.ev()
    s = agreement_symptom(leg, mod)
    if s is not None:
        res.fail(f"C07|agreement|{tokfam(tname)}|{kind_class(ms)}|{digits_class(ms)}|{s[0]}",
                 f"{describe(ms)}: {tname} vs its from_legacy equivalent under shuffle answers {list(answers)}: {s[1]}",
                 dict(kind="agree", m=ms, tok=tname, answers=list(answers)))


def check_maze(ms, cl, toknames, policy, res, space):
    m = build(ms, cl)
    n = cl.shape[1]
    n_edges = int(cl.sum())
    by_tok = {}
    for tname in toknames:
        tok = make_tok(tname, n)
        outs = {}

        def cb(ex, tname=tname, tok=tok, outs=outs):
            tokens = judge_roundtrip(ms, m, tname, tok, ex, res, space)
            if tokens is not None:
                outs[tuple(ex.answers)] = tokens
                if space and (not res.samples or (len(res.samples) == 1 and ms["kind"] == "S" and len(ms["sol"]) > 1
                                                  and (policy == "id" or any(ex.answers)))):
                    res.sample(dict(space=space, maze=describe(ms), tokenizer=tname, answers=ex.answers,
                                    tokens=" ".join(tokens)[-300:]), cap=2)

        k = run_policy(lambda m=m, tok=tok: m.as_tokens(tok), policy, n_edges, cb)
        res.count("as_tokens_executions", k)
        by_tok[tname] = outs
    for tname in toknames:
        p = tname.split(":")
        if p[0] == "X":
            continue
        mod = by_tok.get(f"X:{p[1]}")
        if mod is None:
            continue
        for answers, leg in by_tok[tname].items():
            if answers in mod:
                judge_agreement(ms, tname, answers, leg, mod[answers], res)
                res.count("agreement_comparisons")


# ------------------------------------------------------------------ worker: round trips
def task(t, res):
    t_start = time.time()
    if t["what"] == "ds":
        ds_task(t, res)
        res.add("stats", ("dataset level, pool " + t["pool"] + " / " + t["answers"], t["id"], len(t["seqs"]) if t["primary"] else 0, 0,
                          res.counters.get("dataset_executions", 0), round(time.time() - t_start, 1)))
        return
    rt_task(t, res)
    n_mazes = res.counters.pop("mazes", 0)
    res.add("stats", (t["space"], t["id"], len(t["graphs"]) if t["primary"] else 0, n_mazes if t["toks"] in ("ALL15", "BASE", "MODE0") else 0,
                      res.counters.get("as_tokens_executions", 0), round(time.time() - t_start, 1)))


def rt_task(t, res):
    toknames = TOKSETS[t["toks"]]
    with owned_rng():
        for g in t["graphs"]:
            cl = graph_of(g)
            if not index_condition(cl):
                raise AssertionError(f"graph {g} outside the property's domain")
            mz = mazes_of(g, cl, t["kinds"])
            if t.get("mslice"):
                mz = mz[t["mslice"][0]:: t["mslice"][1]]
            res.count("mazes", len(mz))
            for ms in mz:
                check_maze(ms, cl, toknames, t["answers"], res, t["space"])


# ------------------------------------------------------------------ dataset level
def ds_pool(name):
    """deterministic pools of solved mazes"""
    if name == "p2":  # 2x2: a tree with a 3-cell path, a tree with a 1-cell path, the 4-cycle with a 2-cell path
        t2 = R.trees(2, 2)
        cyc = (1 << len(R.lattice_edges(2, 2))) - 1
        specs = []
        for bits, sol in ((t2[0], None), (t2[1], [[1, 1]]), (cyc, [[0, 0], [0, 1]])):
            g = ["bits", 2, bits]
            if sol is None:
                sol = [list(x) for x in min(R.all_shortest_paths(R.adjacency(graph_of(g)), (0, 0), (1, 1)))]
            specs.append(dict(g=g, kind="S", sol=sol))
        return specs
    if name == "p3":
        t3 = R.trees(3, 3)
        specs = []
        for k, (s, e) in zip((0, 50, 100, 191), (((0, 0), (2, 2)), ((2, 0), (0, 2)), ((1, 1), (1, 1)), ((2, 2), (0, 1)))):
            g = ["bits", 3, t3[k]]
            specs.append(dict(g=g, kind="S", sol=[list(x) for x in min(R.all_shortest_paths(R.adjacency(graph_of(g)), s, e))]))
        return specs
    if name == "p11":
        specs = []
        for g, (s, e) in ((["spiral", 11], ((10, 10), (0, 10))), (["comb", 11], ((10, 0), (9, 10)))):
            specs.append(dict(g=g, kind="S", sol=[list(x) for x in min(R.all_shortest_paths(R.adjacency(graph_of(g)), s, e))]))
        return specs
    raise ValueError(name)


def ds_expected(mazes, tok, limit, join, answers):
    """reference: the first min(limit, n) mazes (all if limit is None), each tokenized on its own, in order"""
    k = len(mazes) if limit is None else min(limit, len(mazes))
    ex = explore.run_with(list(answers), lambda: [mazes[i].as_tokens(tok) for i in range(k)])
    if ex.exc is not None:
        raise ex.exc
    return [" ".join(x) for x in ex.out] if join else ex.out


def limit_class(limit, n):
    return {None: "None", 0: "0", 1: "1"}.get(limit, "n" if limit == n else ("n+1" if limit == n + 1 else str(limit)))


def judge_ds(pool, seq, ds, mazes, tname, tok, limit, join, ex, res, after=None):
    res.ev()
    base = dict(kind="ds", pool=pool, seq=list(seq), tok=tname, limit=limit, join=join, answers=ex.answers)
    key = f"C07|dataset|{tokfam(tname)}|limit={limit_class(limit, len(seq))}|join={join}"
    if after is not None:
        base["after"] = list(after)
        key += f"|after_call_with_limit={limit_class(after[0], len(seq))}"
    where = f"MazeDataset(pool {pool}, mazes {list(seq)}).as_tokens({tname}, limit={limit}, join_tokens_individual_maze={join}) [answers {ex.answers}]"
    if ex.exc is not None:
        res.fail(f"{key}|raises-{type(ex.exc).__name__}", f"{where} raised {type(ex.exc).__name__}: {str(ex.exc)[:300]}", base)
        return
    want = ds_expected(mazes, tok, limit, join, ex.answers)
    got = ex.out
    if not isinstance(got, list) or len(got) != len(want):
        res.fail(f"{key}|length", f"{where} returned {len(got) if isinstance(got, list) else type(got).__name__} entries, expected {len(want)}", base)
        return
    for i, (a, b) in enumerate(zip(got, want)):
        if type(a) is not type(b) or a != b:
            res.fail(f"{key}|entry", f"{where}: entry {i} is {str(a)[:200]!r}, per-maze as_tokens gives {str(b)[:200]!r}", base)
            return
    res.nontrivial(("ds", pool, tuple(seq), limit, join, digest(got)))
    res.sample(dict(space="dataset", pool=pool, seq=list(seq), tokenizer=tname, limit=limit, join=join, answers=ex.answers,
                    first=str(got[:1])[:200]), cap=1)


def ds_build(pool, seq):
    from maze_dataset import MazeDataset, MazeDatasetConfig

    specs = ds_pool(pool)
    mazes = [build(specs[i]) for i in seq]
    n = int(specs[0]["g"][1])
    ds = MazeDataset(MazeDatasetConfig(name="c07", grid_n=n, n_mazes=len(mazes)), mazes)
    return ds, mazes, n


def ds_task(t, res):
    with owned_rng():
        for seq in t["seqs"]:
            ds, mazes, n = ds_build(t["pool"], seq)
            res.count("datasets")
            for tname in TOKSETS[t["toks"]]:
                tok = make_tok(tname, n)
                for limit in (None, 0, 1, len(seq), len(seq) + 1):
                    for join in (False, True):
                        def cb(ex, tname=tname, tok=tok, limit=limit, join=join):
                            judge_ds(t["pool"], seq, ds, mazes, tname, tok, limit, join, ex, res)

                        fn = lambda tok=tok, limit=limit, join=join: ds.as_tokens(tok, limit, join)  # noqa: E731
                        if t["answers"] == "dev1":
                            st = explore.explore_stateless(fn, cb, dev=1)
                            assert not st["capped"]
                            res.count("dataset_executions", st["executions"])
                        else:
                            cb(explore.run_with([], fn))
                            res.count("dataset_executions")
            # two calls on one fresh dataset object, every ordered pair of (limit, join): the second answer must not depend on the first
            if len(seq) >= 2 and t["answers"] != "dev1":
                calls = [(l, j) for l in (0, 1, None, len(seq)) for j in (False, True)]
                for tname in TOKSETS[t["toks"]][:2]:
                    for (l1, j1) in calls:
                        for (l2, j2) in calls:
                            ds2, mazes2, n2 = ds_build(t["pool"], seq)
                            tok = make_tok(tname, n2)
                            explore.run_with([], lambda: ds2.as_tokens(tok, l1, j1))
                            ex = explore.run_with([], lambda: ds2.as_tokens(tok, l2, j2))
                            judge_ds(t["pool"], seq, ds2, mazes2, tname, tok, l2, j2, ex, res, after=(l1, j1))
                            res.count("dataset_call_pairs")


# ------------------------------------------------------------------ plan
def _est_answers(policy, e):
    if policy == "id":
        return 1
    if policy == "few":
        return 4
    if policy == "all":
        f = 2 ** e if e <= 8 else e + 4
        p = {1: 1, 2: 2, 3: 6, 4: 24}.get(e, 2 * e)
        return f * p
    if policy == "dev1":
        return (2 ** e if e <= 12 else e + 4) + 2 * e
    return 3 * e + 2  # lite


def _est_kinds(policy, n):
    return {"L": 1, "all": 1 + 2 * n ** 4 + n * n, "some": 17, "TS4": 9, "LT4": 5, "LT8": 9}[policy]


def _weight(n):
    e = n * n
    return max(1.0, (e / 9.0) ** 1.15)


def block(space, graphs, kinds, toks, answers, tier, budget):
    """split one sub-space into tasks of roughly `budget` estimated executions"""
    tasks, cur, acc = [], [], 0.0
    for g in graphs:
        n = int(g[1])
        e = n * n - 1
        cost = _est_kinds(kinds, n) * len(TOKSETS[toks]) * _est_answers(answers, e) * _weight(n)
        if cur and acc + cost > budget:
            tasks.append(cur)
            cur, acc = [], 0.0
        cur.append(g)
        acc += cost
    if cur:
        tasks.append(cur)
    return [dict(what="rt", tier=tier, space=space, graphs=c, kinds=kinds, toks=toks, answers=answers) for c in tasks]


def plan(tier, dfs44):
    quick = tier == "quick"
    budget = 2500 if quick else 20000
    bits = lambda n, L: [["bits", n, b] for b in L]  # noqa: E731
    t2, c2, d2 = small_graphs(2)
    t3, c3, d3 = small_graphs(3)
    g2 = bits(2, t2 + c2 + d2)
    T = []
    B = lambda *a: T.extend(block(*a, tier, budget))  # noqa: E731
    if quick:
        B("2x2 all graphs / untargeted / all tokenizers / every shuffle answer", g2, "L", "ALL15", "all")
        B("2x2 all graphs / all kinds / all tokenizers / identity", g2, "all", "ALL15", "id")
        B("2x2 all graphs / some kinds / base tokenizers / <=1 deviation", g2, "some", "BASE", "dev1")
        B("3x3 trees / some kinds / all tokenizers / identity (every 8th)", bits(3, t3[::8]), "some", "ALL15", "id")
        B("3x3 trees / some kinds / base tokenizers / identity (every 2nd)", bits(3, t3[::2]), "some", "BASE", "id")
        B("3x3 trees / untargeted / base tokenizers / lite answers (every 2nd)", bits(3, t3[1::2]), "L", "BASE", "lite")
        B("3x3 trees / all kinds / base tokenizers / identity (every 32nd)", bits(3, t3[::32]), "all", "BASE", "id")
        B("3x3 cyclic connected / some kinds / base tokenizers / identity (every 3rd)", bits(3, c3[::3]), "some", "BASE", "id")
        B("3x3 cyclic connected / untargeted / base tokenizers / lite answers (every 8th)", bits(3, c3[::8]), "L", "BASE", "lite")
        B("3x3 disconnected / untargeted+4 targeted / base tokenizers / identity (every 16th)", bits(3, d3[::16]), "LT4", "BASE", "id")
        B("4x4 gen_dfs outputs / untargeted / base tokenizers / identity", bits(4, dfs44), "L", "BASE", "id")
        B("4x4 gen_dfs outputs / some kinds / all tokenizers / identity (every 64th)", bits(4, dfs44[::64]), "some", "ALL15", "id")
        big = [[fam, n] for n in (11, 12, 20) for fam in ("spiral", "comb")] + [["dfs", n, []] for n in (11, 12, 20)]
        for g in big:
            for k in range(3):
                T.append(dict(what="rt", tier=tier, space="structured 11/12/20 / 4 targeted + 4 solved / all tokenizers / identity",
                              graphs=[g], kinds="TS4", toks=f"MODE{k}", answers="id"))
        B("structured 11/12/20 / untargeted / base tokenizers / few answers", big, "L", "BASE", "few")
    else:
        for g in g2:
            for k in range(3):
                for i in range(2):
                    T.append(dict(what="rt", tier=tier, space="2x2 all graphs / all kinds / all tokenizers / every shuffle answer",
                                  graphs=[g], kinds="all", toks=f"MODE{k}", answers="all", mslice=[i, 2]))
        B("3x3 trees / all kinds / all tokenizers / identity", bits(3, t3), "all", "ALL15", "id")
        B("3x3 trees / untargeted / base tokenizers / <=1 deviation", bits(3, t3), "L", "BASE", "dev1")
        B("3x3 trees / untargeted / all tokenizers / lite answers", bits(3, t3), "L", "ALL15", "lite")
        B("3x3 trees / 4 targeted + 4 solved / base tokenizers / lite answers (every 2nd)", bits(3, t3[::2]), "TS4", "BASE", "lite")
        B("3x3 cyclic connected / all kinds / base tokenizers / identity", bits(3, c3), "all", "BASE", "id")
        B("3x3 cyclic connected / some kinds / all tokenizers / identity", bits(3, c3), "some", "ALL15", "id")
        B("3x3 cyclic connected / untargeted / all tokenizers / lite answers", bits(3, c3), "L", "ALL15", "lite")
        B("3x3 disconnected / untargeted+8 targeted / base tokenizers / identity", bits(3, d3), "LT8", "BASE", "id")
        B("3x3 disconnected / untargeted / all tokenizers / identity", bits(3, d3), "L", "ALL15", "id")
        B("4x4 gen_dfs outputs / some kinds / base tokenizers / identity", bits(4, dfs44), "some", "BASE", "id")
        B("4x4 gen_dfs outputs / untargeted / all tokenizers / identity", bits(4, dfs44), "L", "ALL15", "id")
        B("4x4 gen_dfs outputs / untargeted / base tokenizers / few answers", bits(4, dfs44), "L", "BASE", "few")
        big = []
        for n in (11, 12, 20):
            big += [["spiral", n], ["comb", n]] + [["dfs", n, a] for a in dfs_deviations(n, 8)]
        for g in big:
            for k in range(3):
                T.append(dict(what="rt", tier=tier, space="structured 11/12/20 / 8 targeted + 8 solved / all tokenizers / identity",
                              graphs=[g], kinds="some", toks=f"MODE{k}", answers="id"))
                T.append(dict(what="rt", tier=tier, space="structured 11/12/20 / untargeted / all tokenizers / few answers",
                              graphs=[g], kinds="L", toks=f"MODE{k}", answers="few"))
    # dataset level
    seqs2 = [list(s) for k in (1, 2, 3) for s in itertools.product(range(3), repeat=k)]
    dev_seqs = [[0, 1, 2], [2, 2], [1]]
    for i in range(0, len(seqs2), 13):
        T.append(dict(what="ds", tier=tier, pool="p2", seqs=seqs2[i:i + 13], toks="ALL15", answers="id"))
    for k in range(3):
        T.append(dict(what="ds", tier=tier, pool="p2", seqs=dev_seqs, toks=f"MODE{k}", answers="dev1"))
    T.append(dict(what="ds", tier=tier, pool="p3", seqs=[[0, 1, 2, 3], [3, 1]], toks="ALL15", answers="id"))
    if not quick:
        rest = [q for q in seqs2 if q not in dev_seqs]
        for i in range(0, len(rest), 4):
            T.append(dict(what="ds", tier=tier, pool="p2", seqs=rest[i:i + 4], toks="BASE", answers="dev1"))
        for k in range(len(BASE)):
            T.append(dict(what="ds", tier=tier, pool="p3", seqs=[[2, 0, 3]], toks=f"BASE{k}", answers="dev1"))
    T.append(dict(what="ds", tier=tier, pool="p11", seqs=[[0, 1], [1]], toks="ALL15", answers="id"))
    return T, dict(graphs_2x2=dict(trees=len(t2), cyclic=len(c2), disconnected=len(d2)),
                   graphs_3x3=dict(trees=len(t3), cyclic_connected=len(c3), disconnected_with_all_indices=len(d3)))


def run(ctx):
    dfs44, st = dfs_outputs(4)
    tasks, info = plan(ctx.tier, dfs44)
    for i, t in enumerate(tasks):
        t["id"] = i
        t["primary"] = t["toks"] in ("ALL15", "BASE", "MODE0", "BASE0") and t.get("mslice", [0])[0] == 0
    ctx.pmap(MOD, "task", tasks)
    for hs in (("4", "7") if ctx.quick else ("1", "2", "4", "7", "123", "4242")):  # every 9th task again in interpreters with other hash seeds
        ctx.pmap(MOD, "task", tasks[::9], hashseed=hs)
    c = ctx.res.counters
    spaces = {}
    by_id = {}
    for s in sorted(ctx.res.sets.get("stats", ()), key=lambda s: (s[1], -s[5])):
        by_id.setdefault(s[1], s)  # one row per task of the plan (the hash-seed passes run some of them again: not counted twice)
    stats = [by_id[k] for k in sorted(by_id)]
    for sp, _, ng, nm, nx, _ in stats:
        d = spaces.setdefault(sp, dict(tasks=0, graphs_or_datasets=0, mazes=0, executions=0))
        d["tasks"] += 1
        d["graphs_or_datasets"] += ng
        d["mazes"] += nm
        d["executions"] += nx
    ctx.coverage.update(
        tokenizers=ALL15, base_tokenizers=BASE, tasks=len(tasks), **info,
        gen_dfs_4x4=dict(executions=st["executions"], distinct_outputs=len(dfs44), capped=st["capped"]),
        subspaces=spaces, slowest_tasks=[(s[5], s[0]) for s in sorted(stats, key=lambda s: -s[5])[:8]],
        as_tokens_executions=c.get("as_tokens_executions", 0), agreement_comparisons=c.get("agreement_comparisons", 0),
        datasets=c.get("datasets", 0), dataset_executions=c.get("dataset_executions", 0),
        bounds=("square grids 2,3,4,11,12,20; all graphs with every row/column index in a connection on 2x2 and 3x3, every gen_dfs output on 4x4, "
                "spiral/comb/gen_dfs(default + single deviations) on 11,12,20; shuffle answers: complete on 2x2, identity + listed bounded "
                "families elsewhere (flip vectors: all 2^e for e<=8 (modular) / e<=12 (legacy) else none/all/singles/alternating; "
                "permutations: all for <=4 edges else identity/reversal/adjacent transpositions/rotations); "
                "datasets of 1..4 mazes, limit in {None,0,1,n,n+1}, join in {F,T}"),
    )
    ctx.rule = ("one evaluation = one from_tokens call judged (per maze x tokenizer x shuffle answers x input form), one legacy-vs-modular comparison, "
                "or one MazeDataset.as_tokens call; distinct = distinct (maze incl. kind/start/end/solution, emitted token sequence) "
                "resp. distinct (dataset, limit, join, output)")
    ctx.exhaustive = not st["capped"]
    ctx.capped = bool(st["capped"])
    ctx.assumptions += ["only square mazes (legacy from_adj_list infers one grid size)",
                        "shuffle families above 4 edges (permutations) / 8-12 edges (flips) are the bounded families of choice.py, not all n! / 2^e",
                        "token spellings '<ADJLIST_START>', '<ADJLIST_END>', '<-->', ';' as pinned by C14"]


# ------------------------------------------------------------------ replay
def replay(d, res):
    if d["kind"] == "rt":
        ms = d["m"]
        cl = graph_of(ms["g"])
        m = build(ms, cl)
        tok = make_tok(d["tok"], cl.shape[1])
        with owned_rng():
            ex = explore.run_with(d["answers"], lambda: m.as_tokens(tok))
            judge_roundtrip(ms, m, d["tok"], tok, ex, res)
    elif d["kind"] == "agree":
        ms = d["m"]
        cl = graph_of(ms["g"])
        m = build(ms, cl)
        n = cl.shape[1]
        leg, mod = make_tok(d["tok"], n), make_tok("X:" + d["tok"].split(":")[1], n)
        with owned_rng():
            a = explore.run_with(d["answers"], lambda: m.as_tokens(leg))
            b = explore.run_with(d["answers"], lambda: m.as_tokens(mod))
        if a.exc is None and b.exc is None:
            judge_agreement(ms, d["tok"], d["answers"], a.out, b.out, res)
    elif d["kind"] == "ds":
        with owned_rng():
            ds, mazes, n = ds_build(d["pool"], d["seq"])
            tok = make_tok(d["tok"], n)
            if d.get("after") is not None:
                explore.run_with([], lambda: ds.as_tokens(tok, d["after"][0], d["after"][1]))
            ex = explore.run_with(d["answers"], lambda: ds.as_tokens(tok, d["limit"], d["join"]))
            judge_ds(d["pool"], d["seq"], ds, mazes, d["tok"], tok, d["limit"], d["join"], ex, res, after=d.get("after"))
