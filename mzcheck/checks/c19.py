"""C19 Wilson's generator samples spanning trees uniformly (DESIGN 5/C19).

The complete Markov chain of the real gen_wilson is built by explicit-state exploration under the choice oracle;
absorption probabilities of all terminals are computed exactly (to 1e-15) and compared with 1/|Trees|."""
import time

import numpy as np

from .. import explore, refmodel as R
from ..choice import owned_rng


# grid shapes sharing a row or column count, visited one after the other in one fresh interpreter (both directions)
SEQUENCES = [[(1, 2), (2, 2), (2, 3), (3, 2)], [(3, 2), (2, 3), (2, 2), (1, 2)], [(2, 2), (3, 2), (1, 3), (2, 3)], [(2, 3), (1, 3), (3, 1), (2, 2)]]


def shapes(tier):
    s = [(1, 2), (2, 2), (2, 3), (3, 2), (3, 3)]
    if tier != "quick":
        s += [(2, 4), (4, 2), (1, 4), (3, 4)]
    return s


def task(t, res):
    """one chain, or (t["sequence"]) the chains of several grid shapes built one after the other in ONE fresh interpreter: what the
    generator remembered from an earlier grid must not change the distribution on a later one"""
    if t.get("sequence"):
        for k, sh in enumerate(t["sequence"]):
            one_chain(dict(shape=sh, tier=t["tier"]), res, seq=[list(x) for x in t["sequence"]], pos=k)
        return
    one_chain(t, res)


def one_chain(t, res, seq=None, pos=0):
    from maze_dataset.generation.generators import LatticeMazeGenerators as G

    r, c = t["shape"]
    quick = t["tier"] == "quick"
    cap_states = 300_000 if quick else 3_000_000
    deadline = time.time() + ((240 if r * c >= 9 else 60) if quick else 1800)  # unchanged tree: 3x3 needs 30-45 s, the smaller shapes < 1 s
    trees = set(R.trees(r, c))
    assert len(trees) == R.matrix_tree_count(r, c)
    base = dict(shape=[r, c], tier=t["tier"])
    key = f"C19|gen_wilson|{r}x{c}"
    if seq is not None:
        base = dict(sequence=seq[:pos + 1], tier=t["tier"])  # replay: the shapes up to and including this one
        key = f"C19|gen_wilson|{r}x{c}|after_" + ("+".join(f"{a}x{b}" for a, b in seq[:pos]) or "nothing") + "_in_the_same_process"
    kinds = set()

    def on_term(ex):
        res.ev()
        for k, n, a in ex.trace:
            kinds.add(k)
        if ex.exc is not None:
            res.fail(f"{key}|exception", f"gen_wilson({r},{c}) raised {ex.exc!r} for answers {ex.answers}", base)

    with owned_rng() as ch:
        u0 = ch.unowned_draws
        g = explore.build_state_graph(lambda: G.gen_wilson(np.array((r, c))),
                                      lambda m: R.bits_of(m.connection_list) if m.connection_list.shape == (2, r, c) else ("badshape",),
                                      ("gen_wilson",), on_terminal=on_term, cap_states=cap_states, deadline=deadline)
        unowned = ch.unowned_draws - u0
    res.count("states", g.n_states)
    res.count("transitions", g.n_transitions)
    res.count("executions", g.executions)
    res.count("unmerged_states", g.unmerged)
    res.count("unowned_draws", unowned)
    term_bits = {}
    for key_, i in g.ids.items():
        if key_[0] == "T":
            term_bits[i] = key_[1]
    got = set(term_bits.values())
    probs, rest, iters = explore.absorb(g)
    N = len(trees)
    pv = [probs[i] for i in term_bits]
    info = (r, c, g.n_states, g.n_transitions, len(term_bits), N, float(min(pv)) if pv else None, float(max(pv)) if pv else None, rest, g.capped)
    res.add("chains" if seq is None else "chains_in_sequences", info if seq is None else info + (pos, repr(seq)))
    res.sample(dict(shape=[r, c], states=g.n_states, transitions=g.n_transitions, terminals=len(term_bits), trees=N,
                    p_min=min(pv) if pv else None, p_max=max(pv) if pv else None, one_over_N=1.0 / N, residual=rest, capped=g.capped,
                    a_terminal_trace=g.rep[next(iter(term_bits))] if term_bits else None, choice_kinds=sorted(kinds)), cap=20)
    for b in term_bits.values():
        res.nontrivial((r, c, b) if seq is None else (r, c, b, pos, repr(seq)))
    if unowned:
        # a draw the oracle does not model: the chain is not the generator's; refuse to decide rather than guess
        res.count("capped_tasks")
        return
    extra = got - trees
    if extra:
        res.fail(f"{key}|nontree", f"gen_wilson({r},{c}) can return non-spanning-tree outputs, e.g. bits {sorted(map(repr, extra))[:3]}", base)
    if g.capped:
        res.count("capped_tasks")
        # decide only what the explored part already decides: a terminal whose probability interval excludes 1/N
        for i, b in term_bits.items():
            lo, hi = probs[i], probs[i] + rest
            if lo > 1.0 / N + 1e-9:
                res.fail(f"{key}|nonuniform", f"tree bits={b} has probability >= {lo} > 1/{N} (capped run, lower bound)", base)
        return
    missing = trees - got
    if missing:
        res.fail(f"{key}|missing", f"{len(missing)} of {N} spanning trees are never produced, e.g. bits {sorted(missing)[:3]}", base)
    if rest > 1e-12:
        res.fail(f"{key}|termination", f"residual (non-absorbed) mass {rest} after {iters} iterations", base)
    worst = max((abs(probs[i] - 1.0 / N), b) for i, b in term_bits.items() if b in trees) if got & trees else (0, None)
    if worst[0] > 1e-9:
        res.fail(f"{key}|nonuniform", f"tree bits={worst[1]} has absorption probability off by {worst[0]} from 1/{N}; range [{min(pv)}, {max(pv)}]", base)


# ------------------------------------------------------------------ seeding: the tree drawn is a function of the NumPy seed alone
SEED_SHAPES = [((2, 2), 64), ((2, 3), 256), ((3, 3), 1536),
               # elongated grids (beyond the shapes whose whole state graph is built in the quick tier): every spanning tree is drawn for some seed
               ((3, 2), 256), ((2, 4), 2500), ((4, 2), 2500), ((2, 5), 8000), ((5, 2), 8000), ((2, 6), 24000), ((6, 2), 24000)]


def seed_task(t, res):
    """"for every seed of the underlying RNG": with the real PRNG, for every seed in a range, the tree drawn right after
    np.random.seed(s) must not depend on anything else that happened in the process (other generators' draws, python's random, the
    module-level Generator, earlier mazes), must be the same in a forked child, and over the range every spanning tree must occur."""
    import os
    import random

    import maze_dataset.generation.generators as GG
    from maze_dataset.generation.generators import LatticeMazeGenerators as G

    (r, c), n_seeds = tuple(t["shape"]), t["n_seeds"]
    trees = set(R.trees(r, c))
    base = dict(seeding=True, shape=[r, c], n_seeds=n_seeds)
    key = f"C19|gen_wilson|{r}x{c}|seeding"

    def draw(s):
        np.random.seed(s)
        return R.bits_of(G.gen_wilson(np.array((r, c))).connection_list)

    first = [draw(s) for s in range(n_seeds)]
    res.ev(n_seeds)
    # again, in reverse seed order, after unrelated use of every other random source
    for s in range(n_seeds - 1, -1, -1):
        random.random()
        GG.numpy_rng.random(2)
        np.random.rand(3)
        res.ev()
        if draw(s) != first[s]:
            res.fail(f"{key}|not_a_function_of_the_seed", f"gen_wilson({r},{c}) right after np.random.seed({s}) gave tree bits={first[s]} the first time and another tree "
                     f"after unrelated draws from python's random, the module-level Generator and np.random", base)
            break
    # in a forked child (copy of this process) the same seeds give the same trees
    rfd, wfd = os.pipe()
    pid = os.fork()
    if pid == 0:
        try:
            os.close(rfd)
            out = [draw(s) for s in range(0, n_seeds, 7)]
            os.write(wfd, (",".join(map(str, out))).encode())
        finally:
            os._exit(0)
    os.close(wfd)
    buf = b""
    while True:
        b = os.read(rfd, 65536)
        if not b:
            break
        buf += b
    os.close(rfd)
    os.waitpid(pid, 0)
    res.ev()
    child = [int(x) for x in buf.decode().split(",")] if buf else []
    if child != [first[s] for s in range(0, n_seeds, 7)]:
        res.fail(f"{key}|differs_in_forked_child", f"gen_wilson({r},{c}) after np.random.seed(s) gives other trees in a forked child than in the parent", base)
    got = set(first)
    res.ev()
    if got - trees:
        res.fail(f"{key}|nontree", f"non-tree outputs for some seeds: {sorted(got - trees)[:3]}", base)
    if trees - got:
        res.fail(f"{key}|trees_never_drawn", f"{len(trees - got)} of {len(trees)} spanning trees are not drawn for any seed in 0..{n_seeds - 1} "
                 f"({len(got)} distinct outputs)", base)
    for b in got:
        res.nontrivial(("seed", r, c, b))
    res.count("seeded_draws", 2 * n_seeds)


def run(ctx):
    tasks = [dict(shape=s, tier=ctx.tier) for s in shapes(ctx.tier)]
    ctx.pmap("mzcheck.checks.c19", "task", tasks)
    ctx.pmap("mzcheck.checks.c19", "task", [dict(sequence=q, tier=ctx.tier) for q in SEQUENCES], fresh=True)
    ctx.pmap("mzcheck.checks.c19", "seed_task", [dict(shape=sh, n_seeds=n) for sh, n in SEED_SHAPES], fresh=True)
    c = ctx.res.counters
    ctx.coverage.update(states=c.get("states", 0), transitions=c.get("transitions", 0),
                        traces_validated_against_impl=c.get("executions", 0),
                        chains=sorted(ctx.res.sets.get("chains", ())), sequences_in_one_interpreter=[[list(x) for x in q] for q in SEQUENCES],
                        seeding=dict(shapes=[[list(sh), n] for sh, n in SEED_SHAPES], draws=c.get("seeded_draws", 0),
                                     what="real PRNG: tree after np.random.seed(s) for every s in the range, twice (other RNG use in between), in a forked child; every tree occurs"),
                        chains_in_sequences=len(ctx.res.sets.get("chains_in_sequences", ())), unowned_draws=c.get("unowned_draws", 0),
                        capped=c.get("capped_tasks", 0) > 0)
    ctx.rule = ("complete reachable program-state graph of gen_wilson per grid shape; each edge = one answer of one uniform RNG primitive; "
                "distinct = distinct terminal spanning trees whose exact absorption probability was computed")
    ctx.exhaustive = c.get("capped_tasks", 0) == 0
    ctx.assumptions += ["np.random.choice(n) / randint are uniform on their range (NumPy contract): uniformity is decided for the algorithm, not for PRNG quality",
                        "program state at a choice point = locals + instruction offset of the gen_wilson frame and its library callees"]


def replay(d, res):
    if d.get("seeding"):
        seed_task(dict(shape=d["shape"], n_seeds=d["n_seeds"]), res)
        return
    if d.get("sequence"):
        task(dict(sequence=[tuple(x) for x in d["sequence"]], tier=d.get("tier", "quick")), res)
        return
    task(dict(shape=tuple(d["shape"]), tier=d.get("tier", "quick")), res)
