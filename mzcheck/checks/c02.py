"""C02 Shortest-path solver is sound, optimal and complete on every maze (DESIGN 5/C02).

Every connection structure on every grid up to 3x3 (thorough: 2x4, 4x2, 3x4, 4x3 and structured larger mazes) x every
ordered pair of cells, against a reference BFS."""
import numpy as np

from .. import refmodel as R


def judge(m, adj, dist_from, s, e, res, key_shape, rd, via="find_shortest_path"):
    """one query; dist_from[s] = reference BFS distances from s"""
    from maze_dataset.maze import SolvedMaze, TargetedLatticeMaze

    res.ev()
    want = dist_from[s].get(e)
    relation = "same" if s == e else ("connected" if want is not None else "disconnected")
    try:
        if via == "find_shortest_path":
            p = m.find_shortest_path(s, e)
        else:
            p = SolvedMaze.from_targeted_lattice_maze(
                TargetedLatticeMaze(connection_list=m.connection_list, start_pos=s, end_pos=e)).solution
    except ValueError as ex:
        if want is not None:
            res.fail(f"C02|{via}|{relation}|ValueError", f"{key_shape} bits={rd['bits']} {s}->{e}: raised ValueError although distance is {want}", rd)
        return
    except Exception as ex:
        res.fail(f"C02|{via}|{relation}|{type(ex).__name__}", f"{key_shape} bits={rd['bits']} {s}->{e}: raised {type(ex).__name__}: {str(ex)[:150]}", rd)
        return
    if want is None:
        res.fail(f"C02|{via}|disconnected|returned_path", f"{key_shape} bits={rd['bits']} {s}->{e}: returned {np.asarray(p).tolist()} although the cells are not connected", rd)
        return
    p = np.asarray(p)
    ok_shape = p.ndim == 2 and p.shape[1] == 2 and np.issubdtype(p.dtype, np.integer)
    cells = [tuple(int(x) for x in t) for t in p] if ok_shape else None
    if not ok_shape or cells[0] != s or cells[-1] != e:
        res.fail(f"C02|{via}|{relation}|ends", f"{key_shape} bits={rd['bits']} {s}->{e}: result {p.tolist()} does not start/end at the requested cells", rd)
        return
    if not R.path_valid(adj, cells):
        res.fail(f"C02|{via}|{relation}|walls", f"{key_shape} bits={rd['bits']} {s}->{e}: path {cells} leaves the grid or crosses a wall", rd)
        return
    if len(cells) - 1 != want:
        res.fail(f"C02|{via}|{relation}|not_shortest", f"{key_shape} bits={rd['bits']} {s}->{e}: path has {len(cells) - 1} steps, minimum is {want}: {cells}", rd)


def n_shortest(adj, dist_s, e):
    """number of shortest paths s->e (dynamic programming on BFS layers)"""
    order = sorted(dist_s, key=dist_s.get)
    cnt = {}
    for v in order:
        if dist_s[v] == 0:
            cnt[v] = 1
        else:
            cnt[v] = sum(cnt[u] for u in adj[v] if dist_s.get(u, -9) == dist_s[v] - 1)
    return cnt.get(e, 0)


def task(t, res):
    from maze_dataset.maze import LatticeMaze

    if t.get("mixed"):
        # graphs of different shapes with the same number of cells (their arrays can have identical bytes), interleaved in one
        # fresh interpreter: an answer remembered for one maze must not be served for another
        per = [[(r, c, b) for b in range(R.n_graphs(r, c))] for (r, c) in t["mixed"]]
        seq = [x for k in range(max(map(len, per))) for x in (p[k] for p in per if k < len(p))]
        if t["order"] == "reversed":
            seq = seq[::-1]
        from ..runner import Result

        sub = Result()
        for (r, c, b) in seq:
            task(dict(shape=(r, c), range=(b, b + 1), via_solved=1 if b % 4 == 0 else None, nosample=True), sub)
            res.count("mixed_sequence_graphs")
        res.evaluations += sub.evaluations
        res.distinct |= sub.distinct
        for f in sub.fails:  # own keys: must not be shadowed by a same-key failure of an ordinary task in a poisoned worker
            res.fail(f["key"] + "|in_mixed_shape_sequence", f"shapes {t['mixed']} interleaved ({t['order']}) in one fresh interpreter: " + f["what"], f["replay"])
        return
    r, c = t["shape"]
    cells = R.cells(r, c)
    lo, hi = t["range"]
    for bits in range(lo, hi):
        cl = R.graph_from_bits(r, c, bits)
        m = LatticeMaze(connection_list=cl)
        adj = R.adjacency(cl)
        dist_from = {s: R.bfs_dist(adj, s) for s in cells}
        for s in cells:
            for e in cells:
                rd = dict(shape=[r, c], bits=bits, s=s, e=e, via="find_shortest_path")
                judge(m, adj, dist_from, s, e, res, f"{r}x{c}", rd)
                d = dist_from[s].get(e)
                if d is not None and d >= 2 and n_shortest(adj, dist_from[s], e) >= 2:
                    res.nontrivial((r, c, bits, s, e))  # competing shortest routes
                elif d is not None and d >= 1 and len(adj[s]) >= 2 and R.manhattan(s, e) < d:
                    res.nontrivial((r, c, bits, s, e))  # heuristic underestimates: a detour is needed
        if t.get("via_solved") and bits % t["via_solved"] == 0:
            for s in cells:
                for e in cells:
                    rd = dict(shape=[r, c], bits=bits, s=s, e=e, via="from_targeted_lattice_maze")
                    judge(m, adj, dist_from, s, e, res, f"{r}x{c}", rd, via="from_targeted_lattice_maze")
    if not t.get("nosample"):
        res.sample(dict(shape=[r, c], bits_range=[lo, hi], pairs_per_graph=len(cells) ** 2), cap=2)


def structured(n):
    """large structured graphs: serpentine corridor, comb, full lattice minus edges, two rooms with one door"""
    out = {}
    cl = np.zeros((2, n, n), dtype=bool)
    for i in range(n):
        cl[1, i, : n - 1] = True
        if i + 1 < n:
            cl[0, i, (n - 1) if i % 2 == 0 else 0] = True
    out["serpentine"] = cl
    cl = np.zeros((2, n, n), dtype=bool)
    cl[1, 0, : n - 1] = True
    cl[0, : n - 1, ::2] = True
    out["comb"] = cl
    cl = np.zeros((2, n, n), dtype=bool)
    cl[0, : n - 1, :] = True
    cl[1, :, : n - 1] = True
    full = cl.copy()
    out["full"] = full
    cl = full.copy()
    cl[1, :, n // 2 - 1] = False
    cl[1, n - 1, n // 2 - 1] = True
    out["two_rooms"] = cl
    cl = full.copy()
    cl[0, n // 2, 1:] = False
    cl[1, 1:, n // 2] = False
    out["full_minus_cross"] = cl
    cl = full.copy()
    cl[1, :, n // 2] = False  # disconnected halves
    out["split"] = cl
    return out


def task_structured(t, res):
    from maze_dataset.maze import LatticeMaze

    n, name = t["n"], t["name"]
    cl = structured(n)[name]
    m = LatticeMaze(connection_list=cl)
    adj = R.adjacency(cl)
    cells = R.cells(n, n)
    if n <= 8:
        starts = cells
    else:
        starts = [cells[i] for i in range(0, len(cells), max(1, len(cells) // 12))] + [cells[-1]]
    for s in starts:
        dist = {s: R.bfs_dist(adj, s)}
        ends = cells if n <= 8 else [cells[i] for i in range(0, len(cells), max(1, len(cells) // 160))] + [cells[-1]]
        for e in ends:
            rd = dict(structured=name, n=n, bits=name, s=s, e=e)
            judge(m, adj, dist, s, e, res, f"{name}{n}", rd)
            d = dist[s].get(e)
            if d is not None and d > R.manhattan(s, e):
                res.nontrivial((name, n, s, e))


def thin(kind, n):
    """one- and two-cell-wide grids with a long side: ladder (every rung), ladder with the rail cut around index 128 (detour over
    the other rail), corridor"""
    r, c = (1, n) if kind == "corridor" else (2, n)
    cl = np.zeros((2, r, c), dtype=bool)
    cl[1, :, : c - 1] = True
    if r == 2:
        cl[0, 0, :] = True
    if kind == "ladder_cut":
        cl[1, 0, 126:130] = False  # the upper rail is cut around column 128: routes along it must go down and up again
    return cl


def task_thin(t, res):
    from maze_dataset.maze import LatticeMaze

    kind, n, tr = t["kind"], t["n"], t["transpose"]
    cl = thin(kind, n)
    if tr:
        cl = np.stack([cl[1].T, cl[0].T])
    m = LatticeMaze(connection_list=cl)
    adj = R.adjacency(cl)
    r, c = cl.shape[1:]
    long_axis = 1 if c > r else 0
    marks = sorted({0, 1, 63, 126, 127, 128, 129, 130, n - 2, n - 1} & set(range(n)))
    cells = [((w, k) if long_axis == 1 else (k, w)) for k in marks for w in range(min(r, c))]
    for s in cells:
        dist = {s: R.bfs_dist(adj, s)}
        for e in cells:
            rd = dict(thin=kind, n=n, transpose=tr, bits=f"{kind}{n}", s=s, e=e)
            judge(m, adj, dist, s, e, res, f"{kind}{'T' if tr else ''}{n}", rd)
            if dist[s].get(e) is not None and max(s + e) >= 128:
                res.nontrivial((kind, n, tr, s, e))


def run(ctx):
    tasks = []
    shapes = [(1, 1), (1, 2), (2, 1), (1, 3), (3, 1), (2, 2), (2, 3), (3, 2), (3, 3)]
    if not ctx.quick:
        shapes += [(2, 4), (4, 2), (1, 4), (3, 4), (4, 3)]
    for (r, c) in shapes:
        n = R.n_graphs(r, c)
        step = max(1, min(n, 256 if n <= 4096 else 2048))
        for lo in range(0, n, step):
            tasks.append(dict(shape=(r, c), range=(lo, min(n, lo + step)), via_solved=(16 if r * c <= 9 else 64)))
    ctx.pmap("mzcheck.checks.c02", "task", tasks)
    groups = [[(2, 3), (3, 2)], [(1, 4), (4, 1), (2, 2)], [(1, 3), (3, 1)]] + ([] if ctx.quick else [[(2, 4), (4, 2)]])
    ctx.pmap("mzcheck.checks.c02", "task", [dict(mixed=g, order=o) for g in groups for o in ("interleaved", "reversed")], fresh=True)
    st = []
    for n in ([5, 8] if ctx.quick else [5, 8, 12, 20]):
        for name in structured(n):
            st.append(dict(n=n, name=name))
    ctx.pmap("mzcheck.checks.c02", "task_structured", st)
    thin_tasks = [dict(kind=k, n=n, transpose=tr) for k in ("ladder", "ladder_cut", "corridor") for n in ((129, 131) if ctx.quick else (129, 131, 200, 257, 300))
                  for tr in (False, True)]
    # shortest paths of more than 1000 (thorough: 3000) cells: corridors and two-wide ladders, both orientations
    thin_tasks += [dict(kind=k, n=n, transpose=tr) for k in ("corridor", "ladder_cut") for n in ((1100,) if ctx.quick else (1100, 3001)) for tr in (False, True)]
    ctx.pmap("mzcheck.checks.c02", "task_thin", thin_tasks)
    for hs in (("7",) if ctx.quick else ("1", "4", "7", "4242")):  # slices again in interpreters with other hash seeds (iteration order of sets / dicts of strings)
        ctx.pmap("mzcheck.checks.c02", "task", [t for t in tasks if t["shape"][0] * t["shape"][1] <= 6] + tasks[-16::5], hashseed=hs)
        ctx.pmap("mzcheck.checks.c02", "task_structured", st[::3], hashseed=hs)
    ctx.coverage.update(grids=[list(s) for s in shapes], graphs=sum(R.n_graphs(*s) for s in shapes),
                        structured=[f"{t['name']}{t['n']}" for t in st],
                        thin_grids=[f"{t['kind']}{'T' if t['transpose'] else ''}{t['n']}" for t in thin_tasks],
                        mixed_sequences=dict(groups=[[list(x) for x in g] for g in groups], orders=["interleaved", "reversed"],
                                             graphs=ctx.res.counters.get("mixed_sequence_graphs", 0)))
    ctx.rule = ("every connection structure (bit vector over lattice edges) on the listed grids x every ordered (start,end) pair, vs reference BFS; "
                "non-trivial = pairs with >= 2 competing shortest routes or whose shortest route exceeds the Manhattan distance (distinct by graph+pair)")
    ctx.exhaustive = True
    ctx.assumptions += ["grids above 3x4 only through structured families (serpentine, comb, full lattice, rooms)"]


def replay(d, res):
    from maze_dataset.maze import LatticeMaze

    s, e = tuple(d["s"]), tuple(d["e"])
    if "thin" in d:
        cl = thin(d["thin"], d["n"])
        if d["transpose"]:
            cl = np.stack([cl[1].T, cl[0].T])
        label = f"{d['thin']}{'T' if d['transpose'] else ''}{d['n']}"
    elif "structured" in d:
        cl = structured(d["n"])[d["structured"]]
        label = f"{d['structured']}{d['n']}"
    else:
        r, c = d["shape"]
        cl = R.graph_from_bits(r, c, d["bits"])
        label = f"{r}x{c}"
    adj = R.adjacency(cl)
    judge(LatticeMaze(connection_list=cl), adj, {s: R.bfs_dist(adj, s)}, s, e, res, label, d, via=d.get("via", "find_shortest_path"))
