"""C20 Maze plots draw the maze that was given (DESIGN 5/C20).

Every connection structure of the small grids is drawn by the real `MazePlot` (image builder for all graphs x unit
lengths x with/without cell values; the complete matplotlib plot on the Agg backend for the smaller families) and the
picture is read back pixel by pixel / artist by artist and compared with the dict-of-sets adjacency.

Picture geometry as stated by the docstring of `_lattice_maze_to_img` (restated here, not imported):
  image (r*ul+1) x (c*ul+1); cell (i,j) is the (ul-1)x(ul-1) block rows i*ul+1..(i+1)*ul-1, cols j*ul+1..(j+1)*ul-1;
  the strip between (i,j) and (i+1,j) is row (i+1)*ul over the cell's columns, between (i,j) and (i,j+1) column (j+1)*ul
  over the cell's rows; without cell values: cell 1, passage 0.93, wall -1 (also the frame and the crossing pixels);
  with cell values: a cell block carries its value, a passage carries the value of one of the two cells it joins, a
  wall is NaN (drawn black through the colormap's bad colour).
  The centre of cell (i,j) in data coordinates (pixel k spans k-0.5..k+0.5, x = column, y = row) is the middle of its block."""
from __future__ import annotations

import math

import itertools

import numpy as np

from .. import refmodel as R

MOD = "mzcheck.checks.c20"
WALL, PASSAGE, CELL = -1.0, 0.93, 1.0


# ------------------------------------------------------------------ reference geometry
def cell_value(i, j, c):
    """distinct value per cell, none of them equal to a wall / passage / default cell constant"""
    return 2.0 + 0.5 * (i * c + j)


def node_values(r, c):
    return np.array([[cell_value(i, j, c) for j in range(c)] for i in range(r)], dtype=float)


def block_bounds(k, ul):
    """first and last pixel index of the k-th cell block along one axis"""
    return k * ul + 1, (k + 1) * ul - 1


def centre(cell, ul):
    """(x, y) data coordinates of the middle of the cell's block: x from the column, y from the row"""
    (r0, r1), (c0, c1) = block_bounds(cell[0], ul), block_bounds(cell[1], ul)
    return ((c0 + c1) / 2.0, (r0 + r1) / 2.0)


def _all(a, pred):
    return a.size > 0 and bool(np.all(pred(a)))


def check_img(img, r, c, ul, adj, vals):
    """-> None or (symptom key, message) for the first disagreement between the image and the graph"""
    img = np.asarray(img, dtype=float)
    H, W = r * ul + 1, c * ul + 1
    if img.shape != (H, W):
        return "shape", f"image shape {img.shape}, expected {(H, W)}"
    # cells
    for i in range(r):
        for j in range(c):
            (r0, r1), (c0, c1) = block_bounds(i, ul), block_bounds(j, ul)
            blk = img[r0:r1 + 1, c0:c1 + 1]
            want = CELL if vals is None else float(vals[i, j])
            if not _all(blk, lambda a: a == want):
                return "cell-block", f"block of cell {(i, j)} is {np.unique(blk).tolist()}, expected constant {want}"
    # strips
    for (d, i, j) in R.lattice_edges(r, c):
        a, b = R.edge_cells((d, i, j))
        (r0, r1), (c0, c1) = block_bounds(i, ul), block_bounds(j, ul)
        strip = img[(i + 1) * ul, c0:c1 + 1] if d == 0 else img[r0:r1 + 1, (j + 1) * ul]
        conn = b in adj[a]
        name = "strip-below" if d == 0 else "strip-right"
        if strip.shape != (ul - 1,):
            return f"{name}|size", f"strip between {a} and {b} has {strip.shape} pixels"
        if vals is None:
            if conn and not _all(strip, lambda s: s == PASSAGE):
                return f"{name}|passage-not-drawn", f"{a}-{b} are connected but the strip is {np.unique(strip).tolist()} (passage value {PASSAGE})"
            if not conn and not _all(strip, lambda s: s == WALL):
                return f"{name}|wall-not-drawn", f"{a}-{b} are not connected but the strip is {np.unique(strip).tolist()} (wall value {WALL})"
        else:
            if conn and not any(_all(strip, lambda s, v=v: s == v) for v in (float(vals[a]), float(vals[b]))):
                return f"{name}|passage-not-drawn", (f"{a}-{b} are connected but the strip is {np.unique(strip).tolist()}, expected the value of "
                                                     f"one of the two cells ({float(vals[a])}, {float(vals[b])})")
            if not conn and not _all(strip, np.isnan):
                return f"{name}|wall-not-drawn", f"{a}-{b} are not connected but the strip is {np.unique(strip).tolist()}, expected NaN (masked wall)"
    # outer frame (and, without cell values, every crossing pixel): wall
    if vals is None:
        for nm, line in (("top", img[0, :]), ("bottom", img[H - 1, :]), ("left", img[:, 0]), ("right", img[:, W - 1])):
            if not _all(line, lambda s: s == WALL):
                return f"frame-{nm}", f"{nm} frame line is {np.unique(line).tolist()}, expected all {WALL}"
        cross = img[0:H:ul, 0:W:ul]
        if not _all(cross, lambda s: s == WALL):
            return "crossing-pixels", f"pixels where strips cross are {np.unique(cross).tolist()}, expected {WALL}"
    else:
        # with cell values the frame is background (-1) or masked (NaN); crossing pixels are not part of any strip: not judged
        keep_r = np.array([k % ul != 0 for k in range(H)])
        keep_c = np.array([k % ul != 0 for k in range(W)])
        for nm, line in (("top", img[0, keep_c]), ("bottom", img[H - 1, keep_c]), ("left", img[keep_r, 0]), ("right", img[keep_r, W - 1])):
            if not _all(line, lambda s: np.isnan(s) | (s == WALL)):
                return f"frame-{nm}", f"{nm} frame line carries {np.unique(line).tolist()}: an opening to the outside is drawn"
    return None


def check_render(rgba, r, c, ul, adj):
    """the colours actually put on the canvas: walls black, passages and cells not black"""
    rgba = np.asarray(rgba, dtype=float)
    black = (rgba[:, :, :3] == 0).all(axis=2) & (rgba[:, :, 3] == 1)  # opaque black
    for i in range(r):
        for j in range(c):
            (r0, r1), (c0, c1) = block_bounds(i, ul), block_bounds(j, ul)
            if black[r0:r1 + 1, c0:c1 + 1].any():
                return "cell-black", f"cell {(i, j)} is rendered black like a wall"
    for (d, i, j) in R.lattice_edges(r, c):
        a, b = R.edge_cells((d, i, j))
        (r0, r1), (c0, c1) = block_bounds(i, ul), block_bounds(j, ul)
        s = black[(i + 1) * ul, c0:c1 + 1] if d == 0 else black[r0:r1 + 1, (j + 1) * ul]
        if b in adj[a] and s.any():
            return "passage-black", f"passage {a}-{b} is rendered black like a wall"
        if b not in adj[a] and not s.all():
            return "wall-not-black", f"wall between {a} and {b} is not rendered opaque black (rgba {rgba[(i + 1) * ul, c0] if d == 0 else rgba[r0, (j + 1) * ul]})"
    return None


# ------------------------------------------------------------------ building the case
def build_maze(spec):
    from maze_dataset.maze import LatticeMaze, SolvedMaze, TargetedLatticeMaze

    cl = R.graph_from_bits(spec["r"], spec["c"], int(spec["bits"]))
    k = spec.get("mk", "L")
    if k == "L":
        return LatticeMaze(connection_list=cl)
    if k == "T":
        return TargetedLatticeMaze(connection_list=cl, start_pos=np.array(spec["start"]), end_pos=np.array(spec["end"]))
    return SolvedMaze(connection_list=cl, solution=np.array(spec["sol"]))


def _path_arg(p, as_array):
    p = [tuple(int(x) for x in v) for v in p]
    return np.array(p) if as_array else p


def _cls(spec):
    return f"{'values' if spec.get('vals') else 'novalues'}|{'square' if spec['r'] == spec['c'] else 'oblong'}"


def _tag(spec):
    return (f"{spec['r']}x{spec['c']} bits={int(spec['bits']):#x} kind={spec.get('mk', 'L')} unit_length={spec['ul']} "
            f"node_values={bool(spec.get('vals'))}" + (f" start={spec['start']} end={spec['end']}" if spec.get("mk") == "T" else "")
            + (f" solution={spec['sol']}" if spec.get("mk") == "S" else "")
            + (f" call sequence {list(spec['ops']) + ['plot']} on one MazePlot" if spec.get("ops") is not None else "")
            + (f" add_true_path={spec['true']}" if spec.get("true") else "") + (f" add_predicted_path x{len(spec['pred'])}={spec['pred']}" if spec.get("pred") else ""))


def run_img(spec, res):
    """MazePlot._lattice_maze_to_img only"""
    from maze_dataset.plotting import MazePlot

    r, c, ul = spec["r"], spec["c"], spec["ul"]
    res.ev()
    m = build_maze(spec)
    adj = R.adjacency(m.connection_list)
    vals = node_values(r, c) if spec.get("vals") else None
    rd = dict(spec, kind="img")
    try:
        mp = MazePlot(m, unit_length=ul)
        if vals is not None:
            mp.add_node_values(vals.copy())
        img = mp._lattice_maze_to_img()
    except Exception as e:
        res.fail(f"C20|_lattice_maze_to_img|{_cls(spec)}|raises|{type(e).__name__}", f"_lattice_maze_to_img raised {type(e).__name__}: {str(e)[:200]} on {_tag(spec)}", rd)
        return
    bad = check_img(img, r, c, ul, adj, vals)
    if bad:
        res.fail(f"C20|_lattice_maze_to_img|{_cls(spec)}|{bad[0]}", f"{bad[1]}; on {_tag(spec)} (connections {sorted(tuple(sorted(e)) for e in R.edge_set(m.connection_list))})", rd)
    if 0 < int(spec["bits"]) < R.n_graphs(r, c) - 1:
        res.nontrivial(("img", r, c, int(spec["bits"]), ul, bool(spec.get("vals"))))


def _xy(a):
    return [tuple(float(x) for x in p) for p in np.asarray(a, dtype=float).reshape(-1, 2).tolist()]


def run_plot(spec, res):
    """the complete MazePlot(...).plot() on the Agg backend, read back artist by artist"""
    import matplotlib

    matplotlib.use("Agg")
    import matplotlib.pyplot as plt
    from maze_dataset.maze import LatticeMaze, SolvedMaze
    from maze_dataset.plotting import MazePlot

    r, c, ul = spec["r"], spec["c"], spec["ul"]
    as_array = bool(spec.get("as_array"))
    res.ev()
    rd = dict(spec, kind="plot")
    cls = _cls(spec)
    vcls = "values" if spec.get("vals") else "novalues"
    if spec.get("ops") is not None:
        has_vals = any(o.startswith("vals") for o in spec["ops"])
        seq = "sequence:" + ">".join(spec["ops"])
        cls = f"{'values' if has_vals else 'novalues'}|{seq}"
        vcls = ("values|" if has_vals else "novalues|") + seq
    m = build_maze(spec)
    cl = m.connection_list
    adj = R.adjacency(cl)
    vals = node_values(r, c) if spec.get("vals") else None
    fig = None
    try:
        try:
            mp = MazePlot(m, unit_length=ul)
            if spec.get("ops") is not None:
                # one live MazePlot driven through a sequence of configuration calls and intermediate plots; the LAST plot must show the
                # configuration accumulated so far, exactly as a plot object that was configured once would
                vals, true_given, preds = None, None, []
                for op in list(spec["ops"]) + ["plot"]:
                    if op == "plot":
                        if getattr(mp, "fig", None) is not None:
                            plt.close(mp.fig)
                        mp.plot()
                    elif op == "vals":
                        vals = node_values(r, c)
                        mp.add_node_values(vals.copy())
                    elif op == "vals2":
                        vals = node_values(r, c)[::-1, ::-1].copy() + 0.25
                        mp.add_node_values(vals.copy())
                    elif op == "true":
                        true_given = spec["true"]
                        mp.add_true_path(_path_arg(true_given, as_array))
                    elif op in ("pred0", "pred1"):
                        preds.append(spec["pred"][int(op[-1])])
                        mp.add_predicted_path(_path_arg(preds[-1], as_array))
                    elif op == "ascii":
                        mp.to_ascii()
                    else:
                        raise KeyError(op)
                spec = dict(spec, true=true_given, pred=preds)
            else:
                if vals is not None:
                    mp.add_node_values(vals.copy())
                if spec.get("true"):
                    mp.add_true_path(_path_arg(spec["true"], as_array))
                preds = spec.get("pred") or []
                if len(preds) >= 2 and spec.get("multi"):
                    mp.add_multiple_paths([_path_arg(p, as_array) for p in preds])
                else:
                    for p in preds:
                        mp.add_predicted_path(_path_arg(p, as_array))
                mp.plot()
            fig, ax = mp.fig, mp.ax
        except Exception as e:
            res.fail(f"C20|plot|{cls}|{spec.get('mk', 'L')}|raises|{type(e).__name__}", f"plotting raised {type(e).__name__}: {str(e)[:200]} on {_tag(spec)}", rd)
            return
        # ---- the true path the picture must show
        if spec.get("true"):
            true = [tuple(p) for p in spec["true"]]
        elif spec.get("mk") == "S":
            true = [tuple(p) for p in spec["sol"]]
        elif spec.get("mk") == "T":
            # the constructor solves the maze: whatever it chose must be a shortest start->end walk of the reference graph
            true = [tuple(int(x) for x in p) for p in np.asarray(mp.true_path.path).tolist()] if mp.true_path is not None else None
            s, e = tuple(spec["start"]), tuple(spec["end"])
            if (true is None or true[0] != s or true[-1] != e or not R.path_valid(adj, true)
                    or len(true) != R.bfs_dist(adj, s)[e] + 1):
                res.fail(f"C20|constructor|targeted|true-path", f"true path added for the targeted maze is {true}: not a shortest walk {s}->{e}; on {_tag(spec)}", rd)
                return
        else:
            true = None
        # ---- image
        if len(ax.images) != 1:
            res.fail(f"C20|plot|{cls}|n-images", f"{len(ax.images)} images on the axes, expected 1; on {_tag(spec)}", rd)
            return
        im = ax.images[0]
        arr = im.get_array()
        data = np.ma.filled(np.ma.asarray(arr).astype(float), np.nan)
        bad = check_img(data, r, c, ul, adj, vals)
        if bad:
            res.fail(f"C20|plot-image|{cls}|{bad[0]}", f"{bad[1]}; on {_tag(spec)}", rd)
            return
        H, W = r * ul + 1, c * ul + 1
        ext = tuple(float(x) for x in im.get_extent())
        if ext != (-0.5, W - 0.5, H - 0.5, -0.5):
            res.fail(f"C20|plot-image|{cls}|extent", f"image extent {ext}: array rows/columns are not mapped to y downward / x rightward pixel "
                     f"coordinates (expected {(-0.5, W - 0.5, H - 0.5, -0.5)}); on {_tag(spec)}", rd)
            return
        bad = check_render(im.to_rgba(arr), r, c, ul, adj)
        if bad:
            res.fail(f"C20|plot-render|{vcls}|{bad[0]}", f"{bad[1]} (cmap {im.cmap.name}, norm {im.norm.vmin}..{im.norm.vmax}); on {_tag(spec)}", rd)
            return
        # ---- paths: line through the centres (true path), arrows centre to centre (predicted), start/end markers
        want_lines, want_quivers = [], []
        if true:
            cs = [centre(v, ul) for v in true]
            want_lines += [("true path line", cs), ("true path start marker", cs[:1]), ("true path end marker", cs[-1:])]
        for k, p in enumerate(preds):
            cs = [centre(tuple(v), ul) for v in p]
            want_quivers.append((k, cs))
            want_lines += [(f"predicted path {k + 1} start marker", cs[:1]), (f"predicted path {k + 1} end marker", cs[-1:])]
        got_lines = [_xy(ln.get_xydata()) for ln in ax.lines]
        if len(got_lines) != len(want_lines):
            res.fail(f"C20|plot-paths|n-lines", f"{len(got_lines)} lines drawn, expected {len(want_lines)} ({[w[0] for w in want_lines]}); on {_tag(spec)}", rd)
            return
        for (nm, w), g_ in zip(want_lines, got_lines):
            if g_ != w:
                kind = nm.split(" ")[0] + "-" + nm.split(" ")[-1]
                sw = "transposed" if g_ == [(y, x) for x, y in w] else "reversed" if g_ == w[::-1] and len(w) > 1 else "wrong"
                res.fail(f"C20|plot-paths|{kind}|{sw}", f"{nm} runs through {g_}, the cell centres are {w} (x = unit_length*(col+0.5), "
                         f"y = unit_length*(row+0.5)); on {_tag(spec)}", rd)
                return
        quivers = [q for q in ax.collections if type(q).__name__ == "Quiver"]
        if len(quivers) != len(want_quivers):
            res.fail(f"C20|plot-paths|n-quivers", f"{len(quivers)} arrow sets drawn for {len(want_quivers)} predicted paths; on {_tag(spec)}", rd)
            return
        for (k, cs), q in zip(want_quivers, quivers):
            tails = list(zip(np.asarray(q.X, dtype=float).ravel().tolist(), np.asarray(q.Y, dtype=float).ravel().tolist()))
            heads = [(x + u, y + v) for (x, y), u, v in zip(tails, np.asarray(q.U, dtype=float).ravel().tolist(), np.asarray(q.V, dtype=float).ravel().tolist())]
            if tails != cs[:-1] or heads != cs[1:]:
                res.fail(f"C20|plot-paths|predicted-arrows", f"arrows of predicted path {k + 1} go {list(zip(tails, heads))}, the cell centres are {cs}; on {_tag(spec)}", rd)
                return
        # ---- ASCII export
        res.ev()
        for se in (True, False):
            for ss in (True, False):
                def _call(f):
                    try:
                        return f()
                    except Exception as e:  # e.g. show_solution without show_endpoints is refused by both
                        return ("raised", type(e).__name__)

                got = _call(lambda: mp.to_ascii(show_endpoints=se, show_solution=ss))
                if true:
                    ref = _call(lambda: SolvedMaze(connection_list=cl.copy(), solution=np.array(true)).as_ascii(show_endpoints=se, show_solution=ss))
                else:
                    ref = _call(lambda: LatticeMaze(connection_list=cl.copy()).as_ascii(show_endpoints=se, show_solution=ss))
                if got != ref:
                    sym = "raises-" + got[1] if isinstance(got, tuple) else "differs"
                    res.fail(f"C20|to_ascii|{'with' if true else 'no'}-true-path|show_endpoints={se},show_solution={ss}|{sym}",
                             f"to_ascii(show_endpoints={se}, show_solution={ss}) = {got!r} but the maze's own as_ascii(show_endpoints={se}, "
                             f"show_solution={ss}) = {ref!r}; on {_tag(spec)}", rd)
                if isinstance(got, str):
                    res.count("ascii_exports_compared")
        res.count("plots")
        res.count("path_artists_checked", len(want_lines) + len(want_quivers))
        res.nontrivial(("plot", r, c, int(spec["bits"]), ul, bool(spec.get("vals")), spec.get("mk", "L"), repr(spec.get("start")), repr(spec.get("end")),
                        repr(spec.get("sol")), repr(spec.get("true")), repr(spec.get("pred")), as_array, repr(spec.get("ops"))))
    finally:
        if fig is not None:
            plt.close(fig)
        else:
            plt.close("all")


# ------------------------------------------------------------------ case families
ULS = (3, 4, 5, 14)


def lattice_paths(r, c, maxlen=4):
    full = R.adjacency(R.graph_from_bits(r, c, R.n_graphs(r, c) - 1))
    return [[list(v) for v in p] for s in R.cells(r, c) for p in R.simple_paths(full, s, maxlen)]


def kinds_cases(r, c, bits, ul, all_pairs=True, pairs=None, vals=False, max_sol=None):
    """the untargeted maze, targeted mazes (reachable ordered pairs incl. start == end), solved mazes (all shortest paths)"""
    base = dict(r=r, c=c, bits=bits, ul=ul, vals=vals)
    adj = R.adjacency(R.graph_from_bits(r, c, bits))
    out = [dict(base, mk="L")]
    cells = R.cells(r, c)
    prs = [(s, e) for s in cells for e in cells] if all_pairs else pairs
    for s, e in prs:
        sps = R.all_shortest_paths(adj, s, e)
        if not sps:
            continue
        out.append(dict(base, mk="T", start=list(s), end=list(e)))
        for p in sorted(sps)[:max_sol]:
            out.append(dict(base, mk="S", sol=[list(v) for v in p]))
    return out


def plot_cases(tier):
    from .c13 import structured_bits

    quick = tier == "quick"
    C = []
    # 1. all of G(2,2) x kinds, unit lengths 14 and 3 (+ cell values on the default unit length)
    for bits in range(R.n_graphs(2, 2)):
        for ul in (14, 3):
            C += kinds_cases(2, 2, bits, ul)
        C += kinds_cases(2, 2, bits, 5, vals=True)
    # 2. all 192 trees of 3x3 x 4 endpoint pairs
    ends = [((0, 0), (2, 2)), ((2, 0), (0, 2)), ((1, 1), (0, 1)), ((1, 2), (1, 0))]
    for n, bits in enumerate(R.trees(3, 3)):
        ul = (14, 5, 3, 4)[n % 4]
        cs = kinds_cases(3, 3, bits, ul, all_pairs=False, pairs=ends, vals=(n % 8 == 3))
        C += cs if not quick else [x for x in cs if x["mk"] != "L" or n % 4 == 0]
    # 3. oblong and cyclic 3x3: a strided subset of G(2,3), G(3,2), G(3,3) as untargeted / corner-to-corner solved mazes
    for (r, c), stride in (((2, 3), 5), ((3, 2), 5), ((3, 3), 97 if quick else 13)):
        for k, bits in enumerate(range(1, R.n_graphs(r, c), stride)):
            ul = ULS[k % 4]
            C += kinds_cases(r, c, bits, ul, all_pairs=False, pairs=[((0, 0), (r - 1, c - 1)), ((r - 1, 0), (0, c - 1))], vals=(k % 3 == 0))
    # 4. structured 5x5 / 8x8 (and oblong 4x7) x unit lengths 3 and 14
    for (r, c) in [(5, 5), (8, 8), (4, 7)] + ([] if quick else [(7, 4), (6, 6)]):
        for name in ["full", "serpentine", "comb", "rings", "mod0", "mod3", "fullminus2"]:
            bits = structured_bits(r, c, name)
            for ul in (3, 14):
                for vals in (False, True):
                    if vals and quick and name not in ("serpentine", "mod0"):
                        continue
                    C += kinds_cases(r, c, bits, ul, all_pairs=False, pairs=[((0, 0), (r - 1, c - 1)), ((r - 1, 0), (0, c - 1)), ((0, 1), (0, 1))], vals=vals, max_sol=1)
    # 5. paths: every simple lattice path <= 4 cells as true path and as predicted path (three paths per plot, rotating roles)
    for (r, c), graphs in (((2, 2), list(range(16))), ((3, 3), [R.n_graphs(3, 3) - 1, R.trees(3, 3)[77]]),
                           ((2, 3), [R.trees(2, 3)[3]]), ((3, 2), [R.trees(3, 2)[3]])):
        P = lattice_paths(r, c)
        for gi, bits in enumerate(graphs):
            for k in range(len(P)):
                ul = ULS[(k + gi) % 4]
                a, b, d = P[k], P[(k + 7) % len(P)], P[(k + 19) % len(P)]
                C.append(dict(r=r, c=c, bits=bits, ul=ul, vals=False, mk="L", true=a, pred=[b, d], as_array=bool(k % 2), multi=bool(k % 3 == 0)))
                if gi == 0:
                    C.append(dict(r=r, c=c, bits=bits, ul=ul, vals=bool(k % 5 == 0), mk="L", pred=[a], as_array=bool((k + 1) % 2)))
                    C.append(dict(r=r, c=c, bits=bits, ul=ul, vals=False, mk="L", true=d))
    # 5b. paths that visit a cell more than once (into a dead end and back, a back-stepping prediction): every listed cell is drawn, in order
    for (r, c), bits in (((2, 2), 15), ((3, 3), R.n_graphs(3, 3) - 1), ((2, 3), R.trees(2, 3)[3])):
        full = R.adjacency(R.graph_from_bits(r, c, R.n_graphs(r, c) - 1))
        walks = []
        for s0 in R.cells(r, c)[:4]:
            for p in R.simple_paths(full, s0, 3):
                if len(p) == 3:
                    walks.append([list(p[0]), list(p[1]), list(p[0]), list(p[1]), list(p[2])])   # step back and forth
                    walks.append([list(p[0]), list(p[1]), list(p[2]), list(p[1]), list(p[0])])   # out and all the way back
        for k, w in enumerate(walks[:: (3 if quick else 1)]):
            ul = ULS[k % 4]
            C.append(dict(r=r, c=c, bits=bits, ul=ul, vals=False, mk="L", true=w, as_array=bool(k % 2), revisit=True))
            C.append(dict(r=r, c=c, bits=bits, ul=ul, vals=False, mk="L", pred=[w, walks[(k + 5) % len(walks)]], as_array=bool((k + 1) % 2), revisit=True))
    # 6. solved mazes whose STORED solution is not what a solver would return: every simple path of every cyclic 2x2 / some 3x3 graphs
    for (r, c), graphs in (((2, 2), [15, 7, 11, 13, 14]), ((3, 3), [R.n_graphs(3, 3) - 1] if quick else [R.n_graphs(3, 3) - 1, (R.n_graphs(3, 3) - 1) ^ 5])):
        for gi, bits in enumerate(graphs):
            adj = R.adjacency(R.graph_from_bits(r, c, bits))
            sols = []
            for s0 in R.cells(r, c):
                dist = R.bfs_dist(adj, s0)
                sols += [p for p in R.simple_paths(adj, s0, r * c) if len(p) >= 2 and len(p) - 1 != dist[p[-1]]]
            if (r, c) == (3, 3):
                sols = sols[:: (61 if quick else 7)]
            for k, p in enumerate(sols):
                C.append(dict(r=r, c=c, bits=bits, ul=ULS[k % 4], vals=False, mk="S", sol=[list(v) for v in p], nonshortest=True))
    # 7. call sequences on one MazePlot: every sequence of <= 3 calls over {plot, vals, vals2, true, pred0, pred1, ascii}, then plot
    OPS = ["plot", "vals", "vals2", "true", "pred0", "pred1", "ascii"]
    seq_mazes = [dict(r=2, c=2, bits=15, mk="L", true=[[0, 0], [0, 1], [1, 1]], pred=[[[1, 0], [0, 0]], [[1, 1], [1, 0], [0, 0], [0, 1]]]),
                 dict(r=3, c=2, bits=R.trees(3, 2)[3], mk="T", start=[0, 0], end=[2, 1], true=[[2, 1], [1, 1]], pred=[[[0, 0], [1, 0]], [[2, 0], [2, 1]]])]
    depth = 3
    for mi, base in enumerate(seq_mazes):
        for d in range(1, depth + 1):
            for q in itertools.product(OPS, repeat=d):
                if "plot" not in q and "ascii" not in q:
                    continue  # no intermediate observation: configured once, plotted once (families 1-6)
                if quick and mi == 1 and d == 3 and (hash(q) if False else sum(OPS.index(o) * 7 ** i for i, o in enumerate(q))) % 3 != 0:
                    continue
                C.append(dict(base, ul=(5, 14, 3)[d % 3], ops=list(q), as_array=bool(d % 2)))
    for x in C:
        x["bits"] = str(x["bits"])
    return C


def img_task(t, res):
    r, c = t["shape"]
    for bits in range(t["start"], R.n_graphs(r, c), t["stride"]):
        for ul in ULS:
            for vals in (False, True):
                run_img(dict(r=r, c=c, bits=str(bits), ul=ul, vals=vals, mk="L"), res)
    if (r, c) == (3, 3) and t["start"] == 0:
        res.sample(dict(family="image builder", shape=[r, c], first_bits=t["start"], stride=t["stride"], unit_lengths=ULS), cap=1)


def img_struct_task(t, res):
    from .c13 import STRUCT_NAMES, structured_bits

    for (r, c) in t["shapes"]:
        for name in STRUCT_NAMES:
            for ul in ULS:
                for vals in (False, True):
                    run_img(dict(r=r, c=c, bits=str(structured_bits(r, c, name)), ul=ul, vals=vals, mk="L"), res)


def plot_task(t, res):
    C = plot_cases(t["tier"])
    for x in C[t["start"]::t["stride"]]:
        run_plot(x, res)
        if x.get("pred") and x.get("true"):
            res.sample(x, cap=1)
    import matplotlib.pyplot as plt

    plt.close("all")


def task(t, res):
    import matplotlib

    matplotlib.use("Agg")
    dict(img_task=img_task, img_struct_task=img_struct_task, plot_task=plot_task)[t["fn"]](t, res)


def run(ctx):
    quick = ctx.quick
    tasks = [("img_task", dict(shape=sh, start=0, stride=1)) for sh in [(1, 1), (1, 2), (2, 1), (2, 2), (2, 3), (3, 2)]]
    tasks += [("img_task", dict(shape=(3, 3), start=s, stride=8)) for s in range(8)]
    tasks += [("img_struct_task", dict(shapes=[(5, 5), (8, 8), (4, 7), (7, 4)]))]
    if not quick:
        tasks += [("img_task", dict(shape=sh, start=s, stride=4)) for sh in [(2, 4), (4, 2)] for s in range(4)]
        tasks += [("img_struct_task", dict(shapes=[(6, 6), (11, 11)]))]
    n_plot = len(plot_cases(ctx.tier))
    stride = 40
    tasks += [("plot_task", dict(start=s, stride=stride)) for s in range(stride)]
    ctx.pmap(MOD, "task", [dict(t, tier=ctx.tier, fn=f) for f, t in tasks])
    for hs in (("4", "7") if ctx.quick else ("1", "2", "4", "7", "123", "4242")):  # one slice of the plots and the 2x2 images again in interpreters with other hash seeds
        ctx.pmap(MOD, "task", [dict(start=3, stride=stride, tier=ctx.tier, fn="plot_task"), dict(shape=(2, 2), start=0, stride=1, tier=ctx.tier, fn="img_task")], hashseed=hs)
    ctx.coverage.update(
        image_builder=dict(graph_spaces_complete={f"{r}x{c}": R.n_graphs(r, c) for r, c in [(1, 1), (1, 2), (2, 1), (2, 2), (2, 3), (3, 2), (3, 3)]
                                                  + ([] if quick else [(2, 4), (4, 2)])},
                           unit_lengths=list(ULS), cell_values=["none", "distinct value per cell"],
                           structured=["5x5", "8x8", "4x7", "7x4"] + ([] if quick else ["6x6", "11x11"])),
        full_plots=n_plot,
        full_plot_families="all G(2,2) x (untargeted, every reachable ordered (start,end) targeted, every shortest-path solved) x unit_length {14,3} "
                           "(+ cell values at 5); all 192 trees of 3x3 x 4 endpoint pairs x (targeted, solved); strided subsets of G(2,3), G(3,2), G(3,3); "
                           "structured 5x5/8x8/4x7 x unit_length {3,14}; every simple lattice path <= 4 cells on 2x2 (all 16 graphs), 3x3, 2x3, 3x2 "
                           "as true path, as single predicted path and in a true + 2 predicted combination (lists and arrays, add_multiple_paths)",
    )
    ctx.rule = ("one evaluation = one picture (image array or complete Agg plot) read back and compared with the reference adjacency, + one for the "
                "ASCII export of each plot; distinct_nontrivial = distinct (graph, unit_length, values) images with at least one wall and one passage, "
                "and distinct complete plot configurations")
    ctx.exhaustive = True
    ctx.assumptions += [
        "with cell values the pixels where strips cross (incl. those on the bottom/right frame) carry the value of the upper-left cell and the top/left "
        "frame is -1 instead of NaN in the current tree: crossing pixels are not judged and a frame pixel may be NaN or -1",
        "a passage strip with cell values may carry the value of either of the two cells it joins",
        "axis ticks/labels/legend/colours of paths are not part of the property",
    ]


def replay(d, res):
    if d["kind"] == "img":
        run_img(d, res)
    else:
        run_plot(d, res)
