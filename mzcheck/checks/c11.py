"""C11 The on-disk dataset cache never serves wrong data, whatever happened to the file (DESIGN 5/C11).

Fault enumeration: a real `from_config` save is recorded at the level of the file API (every write with its offset,
incl. zip header rewrites); crash images are rebuilt from every prefix of that log (last write torn), the finished file
is truncated at every offset / corrupted byte by byte, and files of other configurations are put under the requested
name. For every image the real `from_config` must return exactly the dataset of *that* configuration (or raise for a
genuinely mismatching foreign file) and leave a loadable file behind."""
import io
import json
import os
import pickle
import shutil
import tempfile
import time
import types
import zipfile

import numpy as np

from .. import refmodel as R
from ..runner import digest

TMP_ROOT = "/var/tmp"


# ------------------------------------------------------------------ configs
def cfg_specs(tier):
    S = [
        dict(label="dfs3", gen="gen_dfs", kw={}, n=3, seed=42),
        dict(label="wilson3", gen="gen_wilson", kw={}, n=3, seed=1, lite=True),
        dict(label="perc3", gen="gen_percolation", kw=dict(p=0.9), n=3, seed=2, lite=True),
        dict(label="dfsperc3", gen="gen_dfs_percolation", kw=dict(p=0.3), n=3, seed=3, lite=True),
        dict(label="prim3", gen="gen_prim", kw={}, n=3, seed=4, lite=True),
        dict(label="dfs3f", gen="gen_dfs", kw={}, n=6, seed=6, filters=[("path_length", (3,), {}), ("truncate_count", (4,), {})]),
        dict(label="dfs120", gen="gen_dfs", kw={}, n=120, seed=5),
        # a filter that is not idempotent: data served from the cache must not be filtered a second time
        dict(label="dfs9pct", gen="gen_dfs", kw={}, n=9, seed=12, lite=True, filters=[("cut_percentile_shortest", (40.0,), {})]),
        # filters of its own AND >= 100 mazes left: saved in the minimal format, whose stored config carries one more filter entry
        dict(label="dfs150f", gen="gen_dfs", kw={}, n=150, seed=42, lite=True, filters=[("path_length", (3,), {})]),
    ]
    if tier != "quick":
        S.append(dict(label="dfs120f", gen="gen_dfs_percolation", kw=dict(p=0.2), n=120, seed=8, filters=[("path_length", (3,), {})]))
    return S


def make_cfg(spec, **over):
    from maze_dataset import MazeDatasetConfig
    from maze_dataset.generation.generators import GENERATORS_MAP

    s = dict(spec, **over)
    kw = dict(name=s.get("name", "c11"), grid_n=s.get("grid", 3), n_mazes=s["n"], maze_ctor=GENERATORS_MAP[s["gen"]],
              maze_ctor_kwargs=dict(s["kw"]), seed=s["seed"])
    if s.get("endpoint_kwargs"):
        kw["endpoint_kwargs"] = dict(s["endpoint_kwargs"])
    if s.get("filters"):
        kw["applied_filters"] = [dict(name=n, args=tuple(a), kwargs=dict(k)) for n, a, k in s["filters"]]
    if s.get("seq_len_max"):
        kw["seq_len_max"] = s["seq_len_max"]
    return MazeDatasetConfig(**kw)


def fp(ds):
    return digest([(m.connection_list.shape, m.connection_list.tobytes(), m.solution.tolist()) for m in ds.mazes])


def fresh_fp(spec):
    from maze_dataset import MazeDataset

    return fp(MazeDataset.from_config(make_cfg(spec), load_local=False, save_local=False, do_download=False))


# ------------------------------------------------------------------ recording a real save
class _Rec(io.FileIO):
    LOG = None

    def write(self, b):
        _Rec.LOG.append(("w", self.tell(), bytes(b)))
        return super().write(b)

    def truncate(self, *a):
        _Rec.LOG.append(("t", a[0] if a else self.tell(), b""))
        return super().truncate(*a)


def record_save(spec):
    """run the real from_config (generate + save) with a recording file object under zipfile as seen from zanj.
    returns (op log, final bytes, file name)"""
    import zanj.zanj as zz

    from maze_dataset import MazeDataset

    class ZF(zipfile.ZipFile):
        def __init__(self, file, mode="r", *a, **k):
            self._rec = None
            if mode == "w" and isinstance(file, (str, os.PathLike)):
                file = _Rec(file, "w+")
                self._rec = file
            super().__init__(file, mode, *a, **k)

        def close(self):
            super().close()
            if self._rec is not None:
                self._rec.close()

    shim = types.ModuleType("zipfile_shim")
    shim.__dict__.update(zipfile.__dict__)
    shim.ZipFile = ZF
    _Rec.LOG = []
    d = tempfile.mkdtemp(prefix="mzc11rec.", dir=TMP_ROOT)
    real_zip, real_time = zz.zipfile, time.time
    try:
        zz.zipfile = shim
        time.time = lambda: 1_700_000_000.0  # frozen clock: zip/zanj timestamps do not vary between runs
        MazeDataset.from_config(make_cfg(spec), local_base_path=d, do_download=False)
        names = os.listdir(d)
        assert len(names) == 1, names
        final = open(os.path.join(d, names[0]), "rb").read()
        log = list(_Rec.LOG)
    finally:
        zz.zipfile = real_zip
        time.time = real_time
        shutil.rmtree(d, ignore_errors=True)
    # the log must reproduce the file exactly, otherwise the crash model is not bound to the implementation
    assert apply_log(log, len(log)) == final, "write log does not reproduce the saved file"
    return log, final, names[0]


def apply_log(log, k, cut=None):
    """file content after the first k ops; the k-th op (index k-1) torn after `cut` bytes if cut is not None"""
    buf = bytearray()
    for i, (kind, off, data) in enumerate(log[:k]):
        if kind == "t":
            del buf[off:]
            continue
        if i == k - 1 and cut is not None:
            data = data[:cut]
        if off > len(buf):
            buf.extend(b"\0" * (off - len(buf)))
        buf[off:off + len(data)] = data
    return bytes(buf)


# ------------------------------------------------------------------ images
def images(spec, log, final, tier):
    """yield (family, descriptor, bytes-or-None). Deterministic given the recorded log."""
    quick = tier == "quick"
    big = spec["n"] > 50 or (quick and spec.get("lite"))
    yield ("missing", "nofile", None)
    yield ("truncate", 0, b"")
    # (a) interrupted save: every prefix of the op log, last op torn
    for k in range(0, len(log) + 1):
        yield ("crash", (k, None), apply_log(log, k))
        if k >= 1 and log[k - 1][0] == "w":
            n = len(log[k - 1][2])
            cuts = sorted({c for c in (0, 1, n // 2, n - 1) if 0 <= c < n}) if (quick or big) else range(0, n)
            if not quick and not big and n > 600:
                cuts = sorted(set(range(0, n, 7)) | {1, n - 1})
            for c in cuts:
                yield ("crash_torn", (k, c), apply_log(log, k, c))
    # (b) truncation
    n = len(final)
    bounds = set()
    pos = 0
    for kind, off, data in log:
        if kind == "w":
            bounds |= {off, off + len(data), off + len(data) - 1, off + 1}
    # zip structure: every byte of the central directory and the end-of-central-directory record, and of every local file header
    # (header fields - versions, flags, methods, sizes, offsets - are where a reader fails in unusual ways)
    struct_offs = set()
    eocd = final.rfind(b"PK\x05\x06")
    if eocd >= 0:
        cd_start = int.from_bytes(final[eocd + 16:eocd + 20], "little")
        if 0 <= cd_start <= eocd:
            struct_offs |= set(range(cd_start, n))
    pos = final.find(b"PK\x03\x04")
    while pos >= 0:
        struct_offs |= set(range(pos, min(n, pos + 30)))
        pos = final.find(b"PK\x03\x04", pos + 4)
    if quick or big:
        offs = set(range(0, n, 16 if not big else 64)) | set(range(max(0, n - 128), n)) | {b for b in bounds if 0 <= b < n}
    else:
        offs = set(range(0, n))
    for o in sorted(offs):
        yield ("truncate", o, final[:o])
    # (c) single-byte corruption
    if quick or big:
        coffs = set(range(0, n, 16 if not big else 97)) | set(range(max(0, n - 64), n)) | {b for b in bounds if 0 <= b < n}
        if not (quick and spec.get("lite")) or spec["label"] == "wilson3":
            coffs |= struct_offs
    else:
        coffs = set(range(0, n, 2)) | set(range(max(0, n - 256), n)) | struct_offs
    for o in sorted(coffs):
        for x in (0xFF, 0x01) if (quick or big) else (0xFF, 0x01, "zero"):
            b = bytearray(final)
            newv = 0 if x == "zero" else b[o] ^ x
            if newv == b[o]:
                continue
            b[o] = newv
            yield ("corrupt", (o, str(x)), bytes(b))
    # appended garbage / duplicated tail
    yield ("append", "zeros", final + b"\0" * 17)
    yield ("append", "self", final + final[:100])


def judge_image(spec, cfg, path, family, desc, img, want_fp, res):
    from maze_dataset import MazeDataset

    res.ev()
    if os.path.exists(path):
        os.remove(path)
    if img is not None:
        with open(path, "wb") as f:
            f.write(img)
    rd = dict(kind="image", spec=spec, family=family, desc=desc, image_hex=None if img is None else img.hex())
    fam = family
    try:
        ds = MazeDataset.from_config(cfg, local_base_path=os.path.dirname(path), do_download=False)
    except Exception as e:
        res.fail(f"C11|{fam}|{spec['label']}|raised|{type(e).__name__}", f"from_config with cache image {family}{desc} of {spec['label']} raised "
                 f"{type(e).__name__}: {str(e)[:200]}", rd)
        return None
    got = fp(ds)
    if got != want_fp:
        res.fail(f"C11|{fam}|{spec['label']}|wrong_data", f"from_config with cache image {family}{desc} of {spec['label']} returned {len(ds)} mazes that differ "
                 f"from a fresh generation", rd)
        return "wrong"
    # the next request finds the file that was left behind: it must be answered with the same data
    try:
        ds2 = MazeDataset.from_config(cfg, local_base_path=os.path.dirname(path), do_download=False)
        if fp(ds2) != want_fp:
            res.fail(f"C11|{fam}|{spec['label']}|second_request_wrong_data", f"the request after from_config with cache image {family}{desc} of {spec['label']} (served from the "
                     f"file left behind) returned {len(ds2)} mazes that differ from a fresh generation ({len(ds)} the first time)", rd)
    except Exception as e:
        res.fail(f"C11|{fam}|{spec['label']}|second_request_raised|{type(e).__name__}", f"the request after from_config with cache image {family}{desc} raised "
                 f"{type(e).__name__}: {str(e)[:150]}", rd)
    # a loadable file equal to the returned dataset is left behind
    try:
        back = MazeDataset.read(path)
        if fp(back) != got:
            res.fail(f"C11|{fam}|{spec['label']}|file_left_differs", f"after from_config with image {family}{desc} the cache file holds other mazes than returned", rd)
    except Exception as e:
        res.fail(f"C11|{fam}|{spec['label']}|file_left_unloadable", f"after from_config with image {family}{desc} the cache file does not load: "
                 f"{type(e).__name__}: {str(e)[:150]}", rd)
    return "ok"


# ------------------------------------------------------------------ workers
def image_task(t, res):
    spec = t["spec"]
    with open(t["rec"], "rb") as f:
        rec = pickle.load(f)
    log, final, fname = rec[spec["label"]]
    cfg = make_cfg(spec)
    assert cfg.to_fname() + ".zanj" == fname, (cfg.to_fname(), fname)
    want = fresh_fp(spec)
    d = tempfile.mkdtemp(prefix="mzc11.", dir=TMP_ROOT)
    try:
        path = os.path.join(d, fname)
        allimgs = list(images(spec, log, final, t["tier"]))
        for idx in range(t["slice"], len(allimgs), t["nslices"]):
            family, desc, img = allimgs[idx]
            out = judge_image(spec, cfg, path, family, desc, img, want, res)
            if img is not None and img != final:
                # non-trivial: the damaged file really fails to load (measured by loading it directly)
                res.nontrivial((spec["label"], family, desc))
            res.count(f"images_{family}")
        res.sample(dict(cfg=spec["label"], file=fname, size=len(final), write_ops=len(log), images=len(allimgs),
                        ops=[(k, o, len(b)) for k, o, b in log][:12]), cap=1)
    finally:
        shutil.rmtree(d, ignore_errors=True)


def foreign_family(n0=4):
    """a base configuration and variants differing from it in exactly one field. n0 = 4: files in the full format; n0 = 100: files in
    the minimal format (written at/above the serialisation threshold, their stored config carries the metadata-collection filter)"""
    base = dict(label="A", gen="gen_dfs", kw={}, n=n0, seed=42, grid=3, name="c11f")
    V = {
        "base": base,
        "name": dict(base, name="c11g"),
        "grid_n": dict(base, grid=4),
        "n_mazes": dict(base, n=n0 + 2),
        "maze_ctor": dict(base, gen="gen_wilson"),
        "maze_ctor_kwargs": dict(base, kw=dict(do_forks=False)),
        "endpoint_kwargs": dict(base, endpoint_kwargs=dict(deadend_start=True)),
        "seed": dict(base, seed=43),
        "applied_filters": dict(base, filters=[("path_length", (3,), {})]),
        "filters_count_change": dict(base, n=n0 + 4, filters=[("truncate_count", (n0,), {})]),
        "seq_len_max": dict(base, seq_len_max=256),
    }
    if n0 >= 100:
        # the same filter names with other arguments; both leave >= 100 mazes, so both files are written in the minimal format
        V["filter_args_a"] = dict(base, n=150, filters=[("path_length", (2,), {})])
        V["filter_args_b"] = dict(base, n=150, filters=[("path_length", (3,), {})])
    return V


def foreign_task(t, res):
    from maze_dataset import MazeDataset

    n0 = t.get("n0", 4)
    V = foreign_family(n0)
    names = sorted(V)
    d = tempfile.mkdtemp(prefix="mzc11f.", dir=TMP_ROOT)
    try:
        files, fps = {}, {}
        for k in names:
            cfg = make_cfg(V[k])
            sub = os.path.join(d, "src_" + k)
            os.makedirs(sub)
            ds = MazeDataset.from_config(cfg, local_base_path=sub, do_download=False)
            fn = os.listdir(sub)[0]
            files[k] = (fn, open(os.path.join(sub, fn), "rb").read())
            fps[k] = fp(ds)
        work = os.path.join(d, "work")
        os.makedirs(work)
        for a in names:
            for b in names:
                if a == b:
                    continue
                res.ev()
                cfgA = make_cfg(V[a])
                pathA = os.path.join(work, files[a][0])
                for f in os.listdir(work):
                    os.remove(os.path.join(work, f))
                with open(pathA, "wb") as f:
                    f.write(files[b][1])
                da = {k for k in ("name", "grid", "n", "gen", "kw", "endpoint_kwargs", "seed", "filters", "seq_len_max") if V[a].get(k) != V[b].get(k)}
                only_count = da <= {"n"}
                rd = dict(kind="foreign", a=a, b=b, n0=n0)
                try:
                    ds = MazeDataset.from_config(cfgA, local_base_path=work, do_download=False)
                except Exception as e:
                    # "a mismatch raises an error rather than silently returning other data": any error will do
                    res.nontrivial(("foreign", a, b))
                    res.add("foreign_error_types", type(e).__name__)
                    continue
                got = fp(ds)
                if got == fps[a]:
                    res.nontrivial(("foreign", a, b))
                    continue  # exactly the requested dataset
                if only_count and got == fps[b]:
                    res.nontrivial(("foreign", a, b))
                    continue  # the maze count is exempt from the comparison: B's stored mazes may be served
                res.fail(f"C11|foreign|{'+'.join(sorted(da))}|other_data_served|{'full' if n0 < 100 else 'minimal'}_format_file", f"request for config '{a}' (family n0={n0}) was answered from a cache file of config '{b}' "
                         f"(differs in {sorted(da)}): returned {len(ds)} mazes that are not the requested dataset", rd)
    finally:
        shutil.rmtree(d, ignore_errors=True)



# ------------------------------------------------------------------ layer 3: cache-protocol histories (explicit-state BFS)
# state  = what lies under the requested file name (absent / loads as the dataset of config X / some damaged bytes)
# events = requests with every (load_local, save_local) combination, deletions, damages, foreign files put under the name
# oracle = the property, evaluated on every transition (NOT a copy of the implementation's policy): a request returns
#          exactly the requested dataset; it may raise only when a loadable file of a genuinely different configuration
#          lies there (and load_local); it may serve the stored mazes when only the maze count differs; after a request
#          that saves, a loadable file holding what was returned must be there.
HIST_REQS = [(True, True), (False, True), (True, False), (False, False)]


def hist_family():
    A = dict(label="A", gen="gen_dfs", kw={}, n=9, seed=42, grid=3, name="c11h", filters=[("cut_percentile_shortest", (40.0,), {})])
    return dict(A=A, B=dict(A, seed=43), Ac=dict(A, n=12), Bg=dict(A, gen="gen_wilson"))


def hist_events():
    ev = [("req", l, s) for l, s in HIST_REQS]
    ev += [("del",), ("empty",), ("trunc", "half"), ("trunc", "m1"), ("trunc", "22"), ("flip", "mid"), ("flip", "4"), ("append",)]
    ev += [("put", k) for k in ("B", "Ac", "Bg", "A")]
    return ev


def _classify(path, fps):
    """abstract state of the cache slot, measured by really loading the file"""
    from maze_dataset import MazeDataset

    if not os.path.exists(path):
        return ("absent",)
    b = open(path, "rb").read()
    try:
        ds = MazeDataset.read(path)
        f = fp(ds)
    except Exception:
        return ("bad", digest(b))
    for k, v in fps.items():
        if v == f:
            return ("ok", k)
    return ("ok_other", f)


def _apply_event(ev, path, files, intact=True):
    kind = ev[0]
    if kind == "del":
        if os.path.exists(path):
            os.remove(path)
    elif kind == "empty":
        open(path, "wb").close()
    elif kind == "put":
        with open(path, "wb") as f:
            f.write(files[ev[1]])
    elif kind in ("trunc", "flip", "append"):
        if not os.path.exists(path):
            return False  # not enabled
        b = bytearray(open(path, "rb").read())
        if len(b) < 30 or not intact:
            return False  # damages apply to intact files only (keeps the state space finite; a damaged file is damaged)
        if kind == "trunc":
            cut = dict(half=len(b) // 2, m1=len(b) - 1)[ev[1]] if ev[1] in ("half", "m1") else len(b) - int(ev[1])
            b = b[:cut]
        elif kind == "flip":
            o = len(b) // 2 if ev[1] == "mid" else int(ev[1])
            b[o] ^= 0xFF
        else:
            b += b"\0" * 13
        with open(path, "wb") as f:
            f.write(bytes(b))
    return True


def _hist_build(hist, work, fnameA, files, fps, cfgA, res=None, judge_from=0):
    """replay a history on a fresh cache directory; judge every request from index judge_from on. returns final state or None if not enabled"""
    from maze_dataset import MazeDataset

    for f in os.listdir(work):
        os.remove(os.path.join(work, f))
    path = os.path.join(work, fnameA)
    for i, ev in enumerate(hist):
        ev = tuple(ev)
        if ev[0] != "req":
            if not _apply_event(ev, path, files, intact=os.path.exists(path) and open(path, "rb").read() in files.values()):
                return None
            continue
        pre = _classify(path, fps)
        load, save = ev[1], ev[2]
        exc, ds = None, None
        try:
            ds = MazeDataset.from_config(make_cfg(hist_family()["A"]), local_base_path=work, do_download=False, load_local=load, save_local=save)
        except Exception as e:
            exc = e
        post = _classify(path, fps)
        if res is None or i < judge_from:
            continue
        res.ev()
        rd = dict(kind="history", hist=[list(e) for e in hist[: i + 1]])
        desc = f"history {[list(e) for e in hist[:i + 1]]} (slot before the last request: {pre}, after: {post})"
        tag = f"{pre[0]}{'' if pre[0] != 'ok' else ':' + pre[1]}|load={int(load)},save={int(save)}"
        foreign = pre[0] == "ok" and pre[1] in ("B", "Bg")
        if exc is not None:
            if foreign:  # a genuinely mismatching file lies there: an error is an allowed answer (whatever the flags)
                res.count("hist_mismatch_raised")
            else:
                res.fail(f"C11|history|{tag}|raised|{type(exc).__name__}", f"from_config raised {type(exc).__name__}: {str(exc)[:150]} in {desc}", rd)
            continue
        got = fp(ds)
        ok_data = got == fps["A"] or (pre == ("ok", "Ac") and got == fps["Ac"])  # the maze count is exempt from the comparison
        if not ok_data:
            res.fail(f"C11|history|{tag}|wrong_data", f"from_config returned {len(ds)} mazes that are not the requested dataset in {desc}", rd)
            continue
        if save:
            # a loadable file holding what was returned must be there (whether freshly saved or the one that was loaded)
            if post[0] not in ("ok",) or fps[post[1]] != got:
                res.fail(f"C11|history|{tag}|file_left_{post[0]}", f"after a saving request the cache slot is {post} although {len(ds)} mazes were returned, in {desc}", rd)
        elif post != pre:
            res.count("hist_nosave_request_changed_slot")  # observed, not judged: the property does not speak about save_local=False
    return _classify(path, fps)


def history_task(t, res):
    """BFS over cache-slot states; every transition is a real execution replayed from an empty directory"""
    import collections

    from maze_dataset import MazeDataset

    fam = hist_family()
    d = tempfile.mkdtemp(prefix="mzc11h.", dir=TMP_ROOT)
    real_time = time.time
    try:
        time.time = lambda: 1_700_000_000.0
        files, fps = {}, {}
        fnameA = None
        for k, spec in fam.items():
            sub = os.path.join(d, "src_" + k)
            os.makedirs(sub)
            ds = MazeDataset.from_config(make_cfg(spec), local_base_path=sub, do_download=False)
            fn = os.listdir(sub)[0]
            files[k] = open(os.path.join(sub, fn), "rb").read()
            fps[k] = fp(ds)
            if k == "A":
                fnameA = fn
        assert len(set(fps.values())) == len(fps), "family members must hold different mazes"
        work = os.path.join(d, "work")
        os.makedirs(work)
        events = hist_events()
        depth = t["depth"]
        seen = {("absent",): []}
        frontier = collections.deque([[]])
        ntrans = 0
        maxd = 0
        while frontier:
            hist = frontier.popleft()
            if len(hist) >= depth:
                continue
            for ev in events:
                h2 = hist + [ev]
                st = _hist_build(h2, work, fnameA, files, fps, None, res, judge_from=len(hist))
                if st is None:
                    continue
                ntrans += 1
                res.nontrivial(("hist", tuple(seen_key(hist, seen)), ev))
                if st not in seen:
                    seen[st] = h2
                    frontier.append(h2)
                    maxd = max(maxd, len(h2))
        res.count("hist_states", len(seen))
        res.count("hist_transitions", ntrans)
        res.count("hist_max_depth", maxd)
        for st in sorted(seen, key=repr)[:40]:
            res.add("hist_state_kinds", st[0] + (":" + st[1] if st[0] == "ok" else ""))
        res.sample(dict(layer="history", states=len(seen), transitions=ntrans, example=[list(e) for e in max(seen.values(), key=len)]), cap=6)
    finally:
        time.time = real_time
        shutil.rmtree(d, ignore_errors=True)


def seen_key(hist, seen):
    for k, v in seen.items():
        if v == hist:
            return k
    return ("?",)


def run(ctx):
    specs = cfg_specs(ctx.tier)
    recdir = tempfile.mkdtemp(prefix="mzc11log.", dir=TMP_ROOT)
    try:
        ctx_rec = {}
        for s in specs:
            ctx_rec[s["label"]] = record_save(s)
        recpath = os.path.join(recdir, "rec.pkl")
        with open(recpath, "wb") as f:
            pickle.dump(ctx_rec, f)
        tasks = []
        for s in specs:
            ns = 8 if s["n"] <= 50 else 16
            if not ctx.quick:
                ns *= 2
            for sl in range(ns):
                tasks.append(dict(spec=s, rec=recpath, slice=sl, nslices=ns, tier=ctx.tier))
        tasks.append(dict(foreign=True, n0=4))
        tasks.append(dict(foreign=True, n0=100))
        tasks.append(dict(history=True, depth=4 if ctx.quick else 6))
        tasks += [dict(live=True, first=e, depth=3 if ctx.quick else 4) for e in LIVE_EVENTS]
        ctx.pmap("mzcheck.checks.c11", "dispatch", tasks)
    finally:
        shutil.rmtree(recdir, ignore_errors=True)
    c = ctx.res.counters
    ctx.coverage.update(configs=[s["label"] for s in specs], recorded={k: dict(size=len(v[1]), write_ops=len(v[0])) for k, v in ctx_rec.items()},
                        images_by_family={k[7:]: v for k, v in c.items() if k.startswith("images_")},
                        foreign_pairs=sum(len(foreign_family(k)) * (len(foreign_family(k)) - 1) for k in (4, 100)), foreign_families=["n0=4 (full format files)", "n0=100 (minimal format files)"],
                        history_layer=dict(states=c.get("hist_states", 0), transitions=c.get("hist_transitions", 0), max_depth=c.get("hist_max_depth", 0),
                                           requests_judged_events=[list(e) for e in hist_events()],
                                           mismatch_raised=c.get("hist_mismatch_raised", 0)),
                        live_config_layer=dict(events=LIVE_EVENTS, depth=3 if ctx.quick else 4, sequences=c.get("live_sequences", 0)))
    ctx.rule = ("crash images = every prefix of the recorded file-API write log of a real save (last write torn at 0,1,half,len-1; every byte in thorough), "
                "truncation at a dense stride + all offsets near the end and around write boundaries (every offset in thorough), single-byte corruptions, "
                "appended garbage, missing/empty file; foreign files for all ordered pairs of a one-field-different family; cache-protocol layer: explicit-state BFS over the "
                "content of the cache slot (absent / empty / intact file of 4 configurations / 6 damages of each) under 16 events (requests with all 4 load/save flag "
                "combinations, delete, empty, damages, foreign files), every transition a real execution replayed from an empty directory and judged by the property; "
                "non-trivial = image differs from the intact file, resp. distinct (state, event) transition")
    ctx.exhaustive = not ctx.quick
    ctx.assumptions += ["a crash leaves a prefix of the application's writes (no reordering below the file API)",
                        "zip/zanj timestamps frozen while recording so that the enumerated offsets are reproducible",
                        "the minimal format pads its solution array with uninitialised memory (np.empty), so the compressed size of a >= 100-maze file - and with it the "
                        "number of truncation / corruption offsets of `dfs120` - varies by a few bytes from run to run; every run enumerates the images of ITS recorded save"]


def dispatch(t, res):
    if t.get("foreign"):
        foreign_task(t, res)
    elif t.get("history"):
        history_task(t, res)
    elif t.get("live"):
        live_task(t, res)
    else:
        image_task(t, res)


def replay(d, res):
    if d["kind"] == "foreign":
        sub = type(res)()
        foreign_task(dict(n0=d.get("n0", 4)), sub)
        for f in sub.fails:
            if f["replay"].get("a") == d["a"] and f["replay"].get("b") == d["b"]:
                res.fail(f["key"], f["what"], f["replay"])
        return
    if d["kind"] == "history":
        replay_history(d, res)
        return
    if d["kind"] == "live":
        run_live(list(d["seq"]), res, only_last=True)
        return
    spec = d["spec"]
    if "kw" in spec:
        spec["kw"] = dict(spec["kw"])
    if spec.get("filters"):
        spec["filters"] = [(n, tuple(a), dict(k)) for n, a, k in spec["filters"]]
    cfg = make_cfg(spec)
    want = fresh_fp(spec)
    dd = tempfile.mkdtemp(prefix="mzc11r.", dir=TMP_ROOT)
    try:
        path = os.path.join(dd, cfg.to_fname() + ".zanj")
        img = None if d["image_hex"] is None else bytes.fromhex(d["image_hex"])
        judge_image(spec, cfg, path, d["family"], d["desc"], img, want, res)
    finally:
        shutil.rmtree(dd, ignore_errors=True)


def replay_history(d, res):
    from maze_dataset import MazeDataset

    fam = hist_family()
    dd = tempfile.mkdtemp(prefix="mzc11hr.", dir=TMP_ROOT)
    real_time = time.time
    try:
        time.time = lambda: 1_700_000_000.0
        files, fps, fnameA = {}, {}, None
        for k, spec in fam.items():
            sub = os.path.join(dd, "src_" + k)
            os.makedirs(sub)
            ds = MazeDataset.from_config(make_cfg(spec), local_base_path=sub, do_download=False)
            fn = os.listdir(sub)[0]
            files[k] = open(os.path.join(sub, fn), "rb").read()
            fps[k] = fp(ds)
            if k == "A":
                fnameA = fn
        work = os.path.join(dd, "work")
        os.makedirs(work)
        hist = [tuple(e) for e in d["hist"]]
        _hist_build(hist, work, fnameA, files, fps, None, res, judge_from=len(hist) - 1)
    finally:
        time.time = real_time
        shutil.rmtree(dd, ignore_errors=True)


# ------------------------------------------------------------------ layer 4: one live configuration object, edited in place between requests
# The cache slot of a request is the file named after the configuration AS IT IS NOW (name, grid, count, generator, hash of the content).
# Every sequence (up to a depth) of requests and in-place field edits on ONE config object over one cache directory: each request must
# return a fresh generation's mazes for the current field values, must not raise (no foreign file is ever put anywhere), and must leave
# a loadable file with those mazes under the name a freshly built configuration with the same fields has.
LIVE_EVENTS = ["req", "seed=43", "seed=42", "grid_n=4", "grid_n=3", "n_mazes=12", "n_mazes=9", "name=c11live2"]


def _live_fields():
    return dict(gen="gen_dfs", kw={}, n=9, seed=42, grid=3, name="c11live", filters=[("cut_percentile_shortest", (40.0,), {})])


def run_live(seq, res, only_last=False):
    from maze_dataset import MazeDataset

    cur = _live_fields()
    cfg = make_cfg(cur)
    d = tempfile.mkdtemp(prefix="mzc11l.", dir=TMP_ROOT)
    try:
        last_edit = "no_edit"
        for k, ev in enumerate(seq):
            if ev != "req":
                fld, val = ev.split("=")
                val = val if fld == "name" else int(val)
                setattr(cfg, fld, val)
                cur[dict(seed="seed", grid_n="grid", n_mazes="n", name="name")[fld]] = val
                last_edit = fld
                continue
            if only_last and k != len(seq) - 1:
                try:
                    MazeDataset.from_config(cfg, local_base_path=d, do_download=False)
                except Exception:  # noqa: BLE001
                    pass
                continue
            res.ev()
            rd = dict(kind="live", seq=list(seq[:k + 1]))
            fresh = make_cfg(cur)
            want = fresh_fp(cur)
            want_name = fresh.to_fname() + ".zanj"
            nreq = sum(1 for e in seq[:k] if e == "req")
            tag = f"after_edit:{last_edit}|{'first_request' if nreq == 0 else 'later_request'}"
            what = f"one live config object, event sequence {list(seq[:k + 1])} (fields now {cur})"
            try:
                ds = MazeDataset.from_config(cfg, local_base_path=d, do_download=False)
            except Exception as e:
                res.fail(f"C11|live_config|{tag}|raised|{type(e).__name__}", f"{what}: the request raised {type(e).__name__}: {str(e)[:150]} although only this "
                         f"object's own earlier requests wrote to the cache directory", rd)
                return False
            if fp(ds) != want:
                res.fail(f"C11|live_config|{tag}|wrong_data", f"{what}: returned {len(ds)} mazes that differ from a fresh generation for the current field values", rd)
                return False
            p = os.path.join(d, want_name)
            try:
                ok = os.path.exists(p) and fp(MazeDataset.read(p)) == want
            except Exception:  # noqa: BLE001
                ok = False
            if not ok:
                res.fail(f"C11|live_config|{tag}|file_not_under_current_name", f"{what}: no loadable file with the returned mazes under {want_name} "
                         f"(directory holds {sorted(os.listdir(d))})", rd)
                return False
        return True
    finally:
        shutil.rmtree(d, ignore_errors=True)


def live_task(t, res):
    import itertools

    n = 0
    for dpt in range(1, t["depth"] + 1):
        for seq in itertools.product(LIVE_EVENTS, repeat=dpt):
            if seq[0] != t["first"] or seq[-1] != "req":
                continue
            if run_live(seq, res):
                res.nontrivial(("live", seq))
            n += 1
    res.count("live_sequences", n)
    res.sample(dict(layer="live config", example=[t["first"], "seed=43", "req"]), cap=1)
