"""C16 A dataset collection is exactly the concatenation of its member datasets (DESIGN 5/C16)

Enumerated completely: every vector of member lengths in {0..3}^k, k = 1..4 (thorough {0..4}^k, k = 1..5), member j
always on its own grid size 2+j so that a maze served from a wrong member is visible, every index 0 <= i < len (and
i = len), each vector in four constructions:
  declared  - every member config declares exactly the number of mazes the member holds
  shrunk    - every member holds one maze fewer than its config declares (a member after filtering), the counts are
              only required to agree after `update_self_config()`
x member configs of the collection config being the members' own config objects (shared) or equal copies (what
`MazeDatasetCollection.generate` and `.load` produce).
Reference model: plain list concatenation and running sums.
"""
import itertools

import numpy as np

from .. import refmodel as R

GRID0 = 2  # member j lives on a (GRID0+j) x (GRID0+j) grid


# --------------------------------------------------------------------------------------------- inputs
def vectors(tier):
    top, kmax = (3, 4) if tier == "quick" else (4, 5)
    out = []
    for k in range(1, kmax + 1):
        out.extend(itertools.product(range(top + 1), repeat=k))
    return [list(v) for v in out]


VARIANTS = [("declared", False), ("declared", True), ("shrunk", False), ("shrunk", True)]

_POOL = {}


def maze(j, i):
    """the i-th maze of member j: comb tree on the (GRID0+j)-grid with the shortest path between the i-th cell and the
    i-th cell from the end as solution; one object per (j, i), never mutated"""
    if (j, i) not in _POOL:
        from maze_dataset.maze import SolvedMaze

        n = GRID0 + j
        cl = np.zeros((2, n, n), dtype=bool)
        cl[1, :, : n - 1] = True   # every row connected left-right
        cl[0, : n - 1, 0] = True   # first column connected top-down
        cells = R.cells(n, n)
        path = R.all_shortest_paths(R.adjacency(cl), cells[i], cells[-1 - i])[0]
        _POOL[(j, i)] = SolvedMaze(connection_list=cl, solution=np.array(path))
    return _POOL[(j, i)]


def describe(m):
    try:
        return f"maze on grid {tuple(m.connection_list.shape[1:])} from {m.start_pos.tolist()} to {m.end_pos.tolist()}"
    except Exception:  # noqa: BLE001
        return repr(m)[:80]


def build(lengths, variant, share):
    from maze_dataset import MazeDataset, MazeDatasetConfig
    from maze_dataset.dataset.collected_dataset import MazeDatasetCollection, MazeDatasetCollectionConfig

    extra = 1 if variant == "shrunk" else 0

    def cfg(j, l):
        return MazeDatasetConfig(name=f"member{j}", grid_n=GRID0 + j, n_mazes=l + extra)

    members = [MazeDataset(cfg(j, l), [maze(j, i) for i in range(l)]) for j, l in enumerate(lengths)]
    cfgs = [ds.cfg if share else cfg(j, l) for j, (ds, l) in enumerate(zip(members, lengths))]
    callers_list = list(members)
    coll = MazeDatasetCollection(cfg=MazeDatasetCollectionConfig(name="coll", maze_dataset_configs=cfgs), maze_datasets=callers_list)
    coll._c16_callers_list = callers_list  # the caller's own list object (harness bookkeeping only)
    concat = [(j, i, maze(j, i)) for j, l in enumerate(lengths) for i in range(l)]
    return coll, concat


def zeros_class(lengths):
    """which zero pattern the vector has (evidence only)"""
    z = [l == 0 for l in lengths]
    if not any(z):
        return "no_empty_member"
    if all(z):
        return "all_empty"
    cls = []
    if z[0]:
        cls.append("first")
    if any(z[1:-1]):
        cls.append("middle")
    if len(z) > 1 and z[-1]:
        cls.append("last")
    return "empty_" + "+".join(cls)


def has_empty(lengths):
    return "with_empty_member" if 0 in lengths else "no_empty_member"


def index_class(lengths, j, i):
    l = lengths[j]
    pos = "member_boundary" if i in (0, l - 1) else "member_interior"
    after_empty = j > 0 and lengths[j - 1] == 0
    return pos + ("|after_empty_member" if after_empty else "")


# --------------------------------------------------------------------------------------------- one case
def check_case(res, lengths, variant, share):
    rd = dict(lengths=list(lengths), variant=variant, share=bool(share))
    tag = f"lengths={list(lengths)} {variant} member configs {'shared' if share else 'equal copies'}"
    total = sum(lengths)
    cums = list(itertools.accumulate(lengths))
    try:
        coll, concat = build(lengths, variant, share)
    except Exception as e:  # noqa: BLE001
        res.ev()
        res.fail(f"C16|construct|raises|{type(e).__name__}", f"building the collection raised {type(e).__name__}: {str(e)[:160]} for {tag}", rd)
        return
    # length
    res.ev()
    try:
        n = len(coll)
    except Exception as e:  # noqa: BLE001
        res.fail(f"C16|__len__|raises|{type(e).__name__}", f"len() raised {e!r:.160} for {tag}", rd)
        return
    if n != total or isinstance(n, bool):
        res.fail(f"C16|__len__|wrong|{variant}", f"len(collection) = {n!r}, members hold {total} for {tag}", rd)
    # every valid index: the very maze of the concatenation
    item_bad = False
    for g, (j, i, want) in enumerate(concat):
        res.ev()
        res.nontrivial(("item", tuple(lengths), variant, share, g))
        icls = index_class(lengths, j, i)
        try:
            got = coll[g]
        except Exception as e:  # noqa: BLE001
            item_bad = True
            res.fail(f"C16|__getitem__|raises|{type(e).__name__}|{icls}",
                     f"collection[{g}] raised {type(e).__name__}: {str(e)[:120]}; expected maze {i} of member {j} for {tag}", rd)
            continue
        if got is not want:
            same_content = (hasattr(got, "connection_list") and got.connection_list.shape == want.connection_list.shape
                            and got.connection_list.tobytes() == want.connection_list.tobytes()
                            and np.array_equal(got.solution, want.solution))
            sym = "copy_not_the_very_maze" if same_content else "wrong_maze"
            item_bad = True
            res.fail(f"C16|__getitem__|{sym}|{icls}",
                     f"collection[{g}] is {describe(got)}; the concatenation has maze {i} of member {j} there ({describe(want)}) for {tag}", rd)
    # i = len must not be served from some member
    res.ev()
    try:
        got = coll[total]
        if hasattr(got, "connection_list"):
            res.fail(f"C16|__getitem__|index_eq_len|served|{has_empty(lengths)}",
                     f"collection[{total}] (= len) silently returned {describe(got)} for {tag}", rd)
    except Exception:  # noqa: BLE001 - any refusal is fine, the statement only speaks about valid indices
        pass
    # flattened list
    res.ev()
    try:
        flat = coll.mazes
        if not isinstance(flat, list) or len(flat) != total:
            res.fail(f"C16|mazes|length|{has_empty(lengths)}", f"collection.mazes has {len(flat)} entries, concatenation has {total} for {tag}", rd)
        else:
            for g, (j, i, want) in enumerate(concat):
                if flat[g] is not want:
                    res.fail(f"C16|mazes|wrong_maze|{index_class(lengths, j, i)}",
                             f"collection.mazes[{g}] is {describe(flat[g])}; expected maze {i} of member {j} ({describe(want)}) for {tag}", rd)
                    break
    except Exception as e:  # noqa: BLE001
        res.fail(f"C16|mazes|raises|{type(e).__name__}", f"collection.mazes raised {e!r:.160} for {tag}", rd)
    # per-member lengths and running totals
    res.ev()
    try:
        dl = [int(x) for x in coll.dataset_lengths]
        dc = [int(x) for x in np.asarray(coll.dataset_cum_lengths).tolist()]
        if dl != list(lengths):
            res.fail("C16|dataset_lengths|wrong", f"dataset_lengths = {dl} for {tag}", rd)
        if dc != cums:
            res.fail("C16|dataset_cum_lengths|wrong", f"dataset_cum_lengths = {dc}, running sums are {cums} for {tag}", rd)
    except Exception as e:  # noqa: BLE001
        res.fail(f"C16|dataset_lengths|raises|{type(e).__name__}", f"dataset_lengths / dataset_cum_lengths raised {e!r:.160} for {tag}", rd)
    # reported maze count
    cfg_kind = "member_cfgs_shared" if share else "member_cfgs_equal_copies"
    if variant == "declared":
        res.ev()
        try:
            nm = coll.cfg.n_mazes
            if nm != total:
                res.fail(f"C16|cfg.n_mazes|declared_counts|wrong|{cfg_kind}", f"cfg.n_mazes = {nm!r}, len = {n}, dataset_lengths sum = {total} for {tag}", rd)
        except Exception as e:  # noqa: BLE001
            res.fail(f"C16|cfg.n_mazes|raises|{type(e).__name__}", f"cfg.n_mazes raised {e!r:.160} for {tag}", rd)
    res.ev()
    try:
        coll.update_self_config()
        nm = coll.cfg.n_mazes
        n2 = len(coll)
        members_decl = [int(ds.cfg.n_mazes) for ds in coll.maze_datasets]
        coll_decl = [int(c.n_mazes) for c in coll.cfg.maze_dataset_configs]
        if n2 != total:
            res.fail("C16|update_self_config|changes_len", f"len = {n2} after update_self_config(), expected {total} for {tag}", rd)
        if members_decl != list(lengths):
            res.fail(f"C16|update_self_config|member_cfg_n_mazes_stale|{variant}", f"after update_self_config() the members' configs declare {members_decl}, they hold {list(lengths)} for {tag}", rd)
        if nm != total:
            res.fail(f"C16|update_self_config|cfg.n_mazes_stale|{variant}|{cfg_kind}",
                     f"after update_self_config(): cfg.n_mazes = {nm!r} but len(collection) = {n2}, dataset_lengths = {list(lengths)} "
                     f"(collection config's member configs declare {coll_decl}, cfg.__dict__.get('n_mazes') = {coll.cfg.__dict__.get('n_mazes')!r}) for {tag}", rd)
    except Exception as e:  # noqa: BLE001
        res.fail(f"C16|update_self_config|raises|{type(e).__name__}", f"update_self_config()/cfg.n_mazes raised {e!r:.160} for {tag}", rd)
    # items are still the very mazes after the config update
    res.ev()
    try:
        bad = None if item_bad else next((g for g, (_, _, want) in enumerate(concat) if coll[g] is not want), None)
        if bad is not None:
            res.fail("C16|__getitem__|wrong_maze|after_update_self_config", f"collection[{bad}] changed after update_self_config() for {tag}", rd)
    except Exception as e:  # noqa: BLE001
        res.fail(f"C16|__getitem__|raises|{type(e).__name__}|after_update_self_config", f"collection[i] raised {e!r:.160} after update_self_config() for {tag}", rd)
    res.nontrivial(("coll", tuple(lengths), variant, share))
    res.add("zero_patterns", zeros_class(lengths))
    res.count("collections")
    res.count("indices", total)
    if list(lengths) in ([1, 0, 3, 2], [0, 0, 2], [3, 0, 0, 1]) and variant == "declared" and not share:
        res.sample(dict(lengths=list(lengths), len=n, expected_grid_of_item=[GRID0 + j for j, _, _ in concat]))



# --------------------------------------------------------------------------------------------- operation sequences
# The per-case check above asks its questions in one fixed order. Here every sequence of observations up to a depth is run
# on a fresh collection (all orders, with repetition): a lazily cached answer computed by one observation must not change
# what a later one returns. Reference = the same list concatenation for every step.
SEQ_OPS = ["len", "items", "items_rev", "items_zigzag", "mazes", "lengths", "n_mazes", "to_fname", "update_self_config", "getitem_last", "caller_appends", "caller_reverses"]


def seq_vectors(tier):
    V = [[2], [0], [2, 1], [0, 2], [2, 0], [1, 0, 2], [0, 0, 1], [1, 2, 0], [0, 1, 0, 2], [3, 0, 0, 1]]
    if tier != "quick":
        V += [[1, 1, 1, 1], [0, 0, 0], [2, 0, 3, 0, 1], [4, 1], [0, 3, 0]]
    return V


def seq_step(coll, concat, lengths, op, variant):
    """run one observation; return None if it agrees with the concatenation, else a (symptom, detail) pair"""
    total = sum(lengths)
    if op == "len":
        n = len(coll)
        return None if n == total else ("len_wrong", f"len = {n}, expected {total}")
    if op in ("items", "items_rev", "items_zigzag"):
        order = list(range(total)) if op == "items" else list(range(total - 1, -1, -1))
        if op == "items_zigzag":  # every ordered pair of indices read one after the other
            order = [x for a in range(total) for b in range(total) for x in (a, b)]
        for g in order:
            if coll[g] is not concat[g][2]:
                return ("item_wrong", f"collection[{g}] is {describe(coll[g])}, expected maze {concat[g][1]} of member {concat[g][0]}")
        return None
    if op == "getitem_last":
        if total and coll[total - 1] is not concat[-1][2]:
            return ("item_wrong", f"collection[{total - 1}] is {describe(coll[total - 1])}")
        return None
    if op == "mazes":
        flat = coll.mazes
        if len(flat) != total or any(a is not b[2] for a, b in zip(flat, concat)):
            return ("mazes_wrong", f"collection.mazes has {len(flat)} entries / differs from the concatenation ({total})")
        return None
    if op == "lengths":
        dl = [int(x) for x in coll.dataset_lengths]
        dc = [int(x) for x in np.asarray(coll.dataset_cum_lengths).tolist()]
        if dl != list(lengths) or dc != list(itertools.accumulate(lengths)):
            return ("lengths_wrong", f"dataset_lengths = {dl}, dataset_cum_lengths = {dc}")
        return None
    if op == "n_mazes":
        nm = coll.cfg.n_mazes  # always read (an observation may leave something behind), judged only where the counts are declared to agree
        if variant == "declared" and nm != total:
            return ("n_mazes_wrong", f"cfg.n_mazes = {nm}, expected {total}")
        return None
    if op == "to_fname":
        coll.cfg.to_fname()
        return None
    if op in ("caller_appends", "caller_reverses"):
        # the caller goes on using the list it built the collection from: the collection keeps the members it was given
        lst = getattr(coll, "_c16_callers_list", None)
        if lst is not None:
            if op == "caller_appends":
                lst.append(lst[0])
            else:
                lst.reverse()
        return None
    if op == "update_self_config":
        coll.update_self_config()
        if coll.cfg.n_mazes != total:
            return ("n_mazes_wrong_after_update", f"cfg.n_mazes = {coll.cfg.n_mazes} after update_self_config(), expected {total}")
        return None
    raise KeyError(op)


def run_seq(res, lengths, variant, share, seq):
    rd = dict(kind="seq", lengths=list(lengths), variant=variant, share=bool(share), seq=list(seq))
    coll, concat = build(lengths, variant, share)
    for k, op in enumerate(seq):
        res.ev()
        try:
            bad = seq_step(coll, concat, lengths, op, variant)
        except Exception as e:  # noqa: BLE001
            bad = (f"raises|{type(e).__name__}", f"{type(e).__name__}: {str(e)[:120]}")
        if bad:
            prior = "first_observation" if k == 0 else "after_" + seq[k - 1]
            res.fail(f"C16|sequence|{op}|{bad[0]}|{prior}|{has_empty(lengths)}",
                     f"observation sequence {list(seq[:k + 1])} on a fresh collection with lengths={list(lengths)} ({variant}, member configs "
                     f"{'shared' if share else 'equal copies'}): {bad[1]}", dict(rd, seq=list(seq[:k + 1])))
            return
    res.nontrivial(("seq", tuple(lengths), variant, share, tuple(seq)))


def seq_task(t, res):
    depth = t["depth"]
    seqs = [q for d in range(1, depth + 1) for q in itertools.product(SEQ_OPS, repeat=d)]
    lengths = t["lengths"]
    for variant, share in VARIANTS:
        for q in seqs:
            run_seq(res, lengths, variant, share, q)
        res.count("sequences", len(seqs))


# --------------------------------------------------------------------------------------------- runner interface
N_TASKS = 32


def task(t, res):
    V = vectors(t["tier"])
    for idx in range(t["r"], len(V), N_TASKS):
        for variant, share in VARIANTS:
            check_case(res, V[idx], variant, share)


def run(ctx):
    V = vectors(ctx.tier)
    tasks = [dict(tier=ctx.tier, r=r) for r in range(N_TASKS)]
    ctx.pmap("mzcheck.checks.c16", "task", tasks)
    depth = 3
    ctx.pmap("mzcheck.checks.c16", "seq_task", [dict(tier=ctx.tier, lengths=v, depth=depth) for v in seq_vectors(ctx.tier)])
    for hs in (("7",) if ctx.quick else ("1", "4", "7", "4242")):  # slices again in interpreters with other hash seeds
        ctx.pmap("mzcheck.checks.c16", "task", tasks[::8], hashseed=hs)
        ctx.pmap("mzcheck.checks.c16", "seq_task", [dict(tier=ctx.tier, lengths=v, depth=2) for v in seq_vectors(ctx.tier)[:3]], hashseed=hs)
    top, kmax = (3, 4) if ctx.quick else (4, 5)
    ctx.coverage.update(
        length_vectors=len(V), member_length_range=f"0..{top}", members=f"1..{kmax}", member_grid_sizes=[GRID0 + j for j in range(kmax)],
        constructions=[f"{v}/{'shared' if s else 'copied'} member configs" for v, s in VARIANTS],
        observation_sequences=dict(ops=SEQ_OPS, depth=depth, vectors=seq_vectors(ctx.tier), sequences_run=ctx.res.counters.get("sequences", 0)),
        collections=len(V) * len(VARIANTS), indices_checked=sum(sum(v) for v in V) * len(VARIANTS), index_eq_len_probed=True,
    )
    ctx.rule = ("every member-length vector up to the bound (all zero patterns included), member j on its own grid size, every index "
                "0 <= i <= len, four constructions (declared / shrunk-by-one member counts x shared / copied member configs); "
                "every sequence of up to 3 observations over 10 observation kinds and 2 caller actions (all orders, with repetition) on fresh collections of 10 (15) representative vectors; "
                "distinct = distinct (vector, construction, index), (vector, construction) and (vector, construction, observation sequence)")
    ctx.exhaustive = True
    ctx.assumptions += ["member mazes are fixed comb-tree mazes with a shortest-path solution (maze content plays no role in the indexing code)",
                        "indices are Python ints; negative indices are outside the statement ('every valid index')"]


def replay(d, res):
    if d.get("kind") == "seq":
        run_seq(res, [int(x) for x in d["lengths"]], d["variant"], bool(d["share"]), list(d["seq"]))
        return
    check_case(res, [int(x) for x in d["lengths"]], d["variant"], bool(d["share"]))
