"""C05, chains of serialisation steps: the dataset a round trip starts from is itself the result of earlier round trips / filters.

Every sequence (up to a depth) over
    full_mem, min_mem, cat_mem     load(<format>()) in memory
    full_file, min_file, cat_file  the same through a ZANJ file
    save_read                      ds.save(path) / MazeDataset.read(path) (format chosen by the threshold)
    collect, idfilter              in-place metadata collection / a filter that keeps every maze (adds provenance, new dataset)
is run from three start datasets; every round-trip step is judged exactly like a single round trip (mazes, cfg, collected metadata
against a snapshot taken just before the step), so what is compared is always the state reached through the history so far."""
import itertools
import os
import shutil
import tempfile

from . import c05 as C

ROUNDTRIP = ["full_mem", "min_mem", "cat_mem", "full_file", "min_file", "cat_file", "save_read"]
OTHER = ["collect", "idfilter"]
OPS = ROUNDTRIP + OTHER
STARTS = [("gen", "gen_dfs", 3, 3, 1030, "per_maze_meta"), ("craft", 3, "x1m2", "per_maze_meta"), ("gen", "gen_dfs_percolation", 4, 2, 1040, "no_generation_meta")]


def step(cur, op, path):
    """-> (next dataset, judged?)"""
    from maze_dataset import MazeDataset
    from zanj import ZANJ

    if op == "collect":
        if cur.generation_metadata_collected is None and (len(cur) == 0 or any(m.generation_meta is None for m in cur.mazes)):
            return cur, False  # not enabled: collection needs per-maze metadata (documented precondition)
        return cur.filter_by.collect_generation_meta(), False
    if op == "idfilter":
        return cur.filter_by.path_length(0), False
    if op == "save_read":
        cur.save(path)
        return MazeDataset.read(path), True
    fmt = dict(full="_serialize_full", min="_serialize_minimal", cat="_serialize_minimal_soln_cat")[op.split("_")[0]]
    ser = getattr(cur, fmt)()
    if op.endswith("_file"):
        ZANJ().save(ser, path)
        return MazeDataset.read(path), True
    return MazeDataset.load(ser), True


def run_chain(si, seq, res, tmpdir, only_last=False):
    dspec = STARTS[si]
    cur, _ = C.build(dspec)
    path = os.path.join(tmpdir, "chain.zanj")
    for k, op in enumerate(seq):
        snap = C.snapshot(cur)
        cfg_before = C.norm_cfg(cur.cfg)
        prev = seq[k - 1] if k else "start"
        rd = dict(kind="chain", start=si, seq=list(seq[:k + 1]))
        what = f"chain {list(seq[:k + 1])} from dataset {dspec}"
        try:
            nxt, judged = step(cur, op, path)
        except BaseException as e:  # noqa: BLE001
            if not only_last or k == len(seq) - 1:
                res.fail(f"C05|chain|{op}|after_{prev}|raises|{type(e).__name__}", f"{what}: step {op} raised {type(e).__name__}: {str(e)[:200]}", rd)
            return False
        finally:
            if os.path.exists(path):
                os.remove(path)
        if judged and (not only_last or k == len(seq) - 1):
            res.ev()
            if not C.judge_dataset(nxt, cur, snap, cfg_before, None, res, f"C05|chain|{op}|after_{prev}", what, rd):
                return False
        elif not judged:
            # collect / identity filter keep every maze
            if C.snapshot(nxt) != snap:
                res.fail(f"C05|chain|{op}|after_{prev}|mazes_changed", f"{what}: {op} changed the mazes", rd)
                return False
        cur = nxt
    return True


def chain_task(t, res):
    tmpdir = tempfile.mkdtemp(prefix="mzc05c_", dir=os.environ.get("TMPDIR") or "/var/tmp")
    try:
        n = 0
        for d in range(1, t["depth"] + 1):
            for seq in itertools.product(OPS, repeat=d):
                if seq[0] != t["first"] or seq[-1] not in ROUNDTRIP:
                    continue
                if run_chain(t["start"], seq, res, tmpdir):
                    res.nontrivial(("chain", t["start"], seq))
                n += 1
        res.count("chains", n)
        res.sample(dict(layer="chain", start=list(STARTS[t["start"]]), example=[t["first"], "min_file", "cat_mem"]), cap=1)
    finally:
        shutil.rmtree(tmpdir, ignore_errors=True)


def replay(d, res):
    tmpdir = tempfile.mkdtemp(prefix="mzc05cr_", dir=os.environ.get("TMPDIR") or "/var/tmp")
    try:
        run_chain(d["start"], list(d["seq"]), res, tmpdir, only_last=True)
    finally:
        shutil.rmtree(tmpdir, ignore_errors=True)


# ------------------------------------------------------------------------------------------------ serialized objects that are kept
# A serialized dataset (the dict returned by a _serialize_* method) is data: loading it, loading it again, writing it to a file later,
# or serialising ANOTHER dataset in between must not change what it loads to. Two datasets A, B of identical size parameters (maze
# count, grid, longest solution) but different mazes; every sequence (up to a depth) over
#     serA, serB      serialise in the format under test and keep the dict (replacing an earlier one of the same dataset)
#     loadA, loadB    MazeDataset.load(kept dict)            - judged against the dataset's snapshot
#     fileA, fileB    ZANJ().save(kept dict), read the file  - judged likewise
KEPT_OPS = ["serA", "serB", "loadA", "loadB", "fileA", "fileB"]
KEPT_FORMATS = ["full", "minimal", "minimal_soln_cat"]


def kept_datasets():
    """two datasets with the same n_mazes, grid_n and longest solution, different mazes (and a third of another size as a decoy)"""
    import numpy as np
    from maze_dataset import MazeDataset, MazeDatasetConfig, SolvedMaze

    from .. import refmodel as R

    trees = R.trees(3, 3)
    out = {}
    for name, idxs in (("A", (3, 50, 120, 181)), ("B", (7, 61, 99, 150))):
        mazes = []
        for k, ti in enumerate(idxs):
            cl = R.graph_from_bits(3, 3, trees[ti])
            adj = R.adjacency(cl)
            ends = [((0, 0), (2, 2)), ((2, 0), (0, 2)), ((1, 1), (0, 0)), ((0, 1), (2, 1))][k]
            p = R.all_shortest_paths(adj, *ends)[0]
            mazes.append(SolvedMaze(connection_list=cl, solution=np.array(p)))
        # equalise the longest solution: both datasets end with a maze whose solution is the full 9-cell walk through a serpentine tree
        snake = [(0, 0), (0, 1), (0, 2), (1, 2), (1, 1), (1, 0), (2, 0), (2, 1), (2, 2)]
        if name == "B":
            snake = [(c, r) for r, c in snake]  # the transposed serpentine: another maze, same solution length
        scl = np.zeros((2, 3, 3), dtype=bool)
        for (a, b), (c, d) in zip(snake, snake[1:]):
            (i, j), (k, l) = sorted([(a, b), (c, d)])
            scl[0 if k == i + 1 else 1, i, j] = True
        mazes.append(SolvedMaze(connection_list=scl, solution=np.array(snake)))
        out[name] = mazes
    return {k: MazeDataset(MazeDatasetConfig(name=f"kept{k}", grid_n=3, n_mazes=len(v), seed=11), v) for k, v in out.items()}


def run_kept(fmt, seq, res, tmpdir, only_last=False):
    from maze_dataset import MazeDataset
    from zanj import ZANJ

    D = kept_datasets()
    snaps = {k: C.snapshot(d) for k, d in D.items()}
    cfgs = {k: C.norm_cfg(d.cfg) for k, d in D.items()}
    kept = {}
    path = os.path.join(tmpdir, "kept.zanj")
    for k, op in enumerate(seq):
        X = op[-1]
        rd = dict(kind="kept", fmt=fmt, seq=list(seq[:k + 1]))
        what = f"format {fmt}, sequence {list(seq[:k + 1])} on two same-sized datasets (kept serialized dicts)"
        if op.startswith("ser"):
            try:
                kept[X] = getattr(D[X], C.SER_METHOD[fmt])()
            except BaseException as e:  # noqa: BLE001
                res.fail(f"C05|kept|{fmt}|{op}|raises|{type(e).__name__}", f"{what}: {type(e).__name__}: {str(e)[:200]}", rd)
                return False
            continue
        if X not in kept:
            return None  # not enabled
        earlier = [o for o in seq[:k] if not (o.startswith("ser") and o[-1] == X and False)]
        since = seq[max(i for i in range(k) if seq[i] == "ser" + X) + 1:k]
        cls = "first_use" if not since else "after_" + "+".join(sorted(set(o[:-1] + ("_same" if o[-1] == X else "_other") for o in since)))
        try:
            if op.startswith("load"):
                got = MazeDataset.load(kept[X])
            else:
                ZANJ().save(kept[X], path)
                got = MazeDataset.read(path)
        except BaseException as e:  # noqa: BLE001
            if not only_last or k == len(seq) - 1:
                res.fail(f"C05|kept|{fmt}|{op[:-1]}|{cls}|raises|{type(e).__name__}", f"{what}: {op} raised {type(e).__name__}: {str(e)[:200]}", rd)
            return False
        finally:
            if os.path.exists(path):
                os.remove(path)
        if only_last and k != len(seq) - 1:
            continue
        res.ev()
        if not C.judge_dataset(got, D[X], snaps[X], cfgs[X], None, res, f"C05|kept|{fmt}|{op[:-1]}|{cls}", what, rd):
            return False
    return True


def kept_task(t, res):
    tmpdir = tempfile.mkdtemp(prefix="mzc05k_", dir=os.environ.get("TMPDIR") or "/var/tmp")
    try:
        n = 0
        for d in range(2, t["depth"] + 1):
            for seq in itertools.product(KEPT_OPS, repeat=d):
                if seq[0] != t["first"] or seq[-1].startswith("ser"):
                    continue
                r = run_kept(t["fmt"], seq, res, tmpdir)
                if r is None:
                    continue
                if r:
                    res.nontrivial(("kept", t["fmt"], seq))
                n += 1
        res.count("kept_sequences", n)
        res.sample(dict(layer="kept serialized objects", format=t["fmt"], example=["serA", "loadA", "serB", "loadA"]), cap=1)
    finally:
        shutil.rmtree(tmpdir, ignore_errors=True)


def replay_kept(d, res):
    tmpdir = tempfile.mkdtemp(prefix="mzc05kr_", dir=os.environ.get("TMPDIR") or "/var/tmp")
    try:
        run_kept(d["fmt"], list(d["seq"]), res, tmpdir, only_last=True)
    finally:
        shutil.rmtree(tmpdir, ignore_errors=True)
