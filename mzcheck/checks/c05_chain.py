"""C05, chains of serialisation steps: the dataset a round trip starts from is itself the result of earlier round trips / filters.

Every sequence (up to a depth) over
    full_mem, min_mem, cat_mem     load(<format>()) in memory
    full_file, min_file, cat_file  the same through a ZANJ file
    save_read                      ds.save(path) / MazeDataset.read(path) (format chosen by the threshold)
    collect, idfilter              in-place metadata collection / a filter that keeps every maze (adds provenance, new dataset)
is run from three start datasets; every round-trip step is judged exactly like a single round trip (mazes, cfg, collected metadata
against a snapshot taken just before the step), so what is compared is always the state reached through the history so far."""
import itertools
import os
import shutil
import tempfile

from . import c05 as C

ROUNDTRIP = ["full_mem", "min_mem", "cat_mem", "full_file", "min_file", "cat_file", "save_read"]
OTHER = ["collect", "idfilter"]
OPS = ROUNDTRIP + OTHER
STARTS = [("gen", "gen_dfs", 3, 3, 1030, "per_maze_meta"), ("craft", 3, "x1m2", "per_maze_meta"), ("gen", "gen_dfs_percolation", 4, 2, 1040, "no_generation_meta")]


def step(cur, op, path):
    """-> (next dataset, judged?)"""
    from maze_dataset import MazeDataset
    from zanj import ZANJ

    if op == "collect":
        return cur.filter_by.collect_generation_meta(), False
    if op == "idfilter":
        return cur.filter_by.path_length(0), False
    if op == "save_read":
        cur.save(path)
        return MazeDataset.read(path), True
    fmt = dict(full="_serialize_full", min="_serialize_minimal", cat="_serialize_minimal_soln_cat")[op.split("_")[0]]
    ser = getattr(cur, fmt)()
    if op.endswith("_file"):
        ZANJ().save(ser, path)
        return MazeDataset.read(path), True
    return MazeDataset.load(ser), True


def run_chain(si, seq, res, tmpdir, only_last=False):
    dspec = STARTS[si]
    cur, _ = C.build(dspec)
    path = os.path.join(tmpdir, "chain.zanj")
    for k, op in enumerate(seq):
        snap = C.snapshot(cur)
        cfg_before = C.norm_cfg(cur.cfg)
        prev = seq[k - 1] if k else "start"
        rd = dict(kind="chain", start=si, seq=list(seq[:k + 1]))
        what = f"chain {list(seq[:k + 1])} from dataset {dspec}"
        try:
            nxt, judged = step(cur, op, path)
        except BaseException as e:  # noqa: BLE001
            if not only_last or k == len(seq) - 1:
                res.fail(f"C05|chain|{op}|after_{prev}|raises|{type(e).__name__}", f"{what}: step {op} raised {type(e).__name__}: {str(e)[:200]}", rd)
            return False
        finally:
            if os.path.exists(path):
                os.remove(path)
        if judged and (not only_last or k == len(seq) - 1):
            res.ev()
            if not C.judge_dataset(nxt, cur, snap, cfg_before, None, res, f"C05|chain|{op}|after_{prev}", what, rd):
                return False
        elif not judged:
            # collect / identity filter keep every maze
            if C.snapshot(nxt) != snap:
                res.fail(f"C05|chain|{op}|after_{prev}|mazes_changed", f"{what}: {op} changed the mazes", rd)
                return False
        cur = nxt
    return True


def chain_task(t, res):
    tmpdir = tempfile.mkdtemp(prefix="mzc05c_", dir=os.environ.get("TMPDIR") or "/var/tmp")
    try:
        n = 0
        for d in range(1, t["depth"] + 1):
            for seq in itertools.product(OPS, repeat=d):
                if seq[0] != t["first"] or seq[-1] not in ROUNDTRIP:
                    continue
                if run_chain(t["start"], seq, res, tmpdir):
                    res.nontrivial(("chain", t["start"], seq))
                n += 1
        res.count("chains", n)
        res.sample(dict(layer="chain", start=list(STARTS[t["start"]]), example=[t["first"], "min_file", "cat_mem"]), cap=1)
    finally:
        shutil.rmtree(tmpdir, ignore_errors=True)


def replay(d, res):
    tmpdir = tempfile.mkdtemp(prefix="mzc05cr_", dir=os.environ.get("TMPDIR") or "/var/tmp")
    try:
        run_chain(d["start"], list(d["seq"]), res, tmpdir, only_last=True)
    finally:
        shutil.rmtree(tmpdir, ignore_errors=True)
