"""C18 Configurations round-trip exactly and have stable, discriminating identities (DESIGN 5/C18)

Enumerated: the lattice of MazeDatasetConfig field values (name x grid_n x n_mazes x generator x generator kwargs x
endpoint options x seed x recorded filters) -- the full cross product in the thorough tier, the Hamming ball of radius 3
around two base points in the quick tier -- plus single-field "extra" values around the plain base, collection configs
(all ordered member tuples of length 1..3), all one-field-different pairs, and 5 PYTHONHASHSEED child interpreters.

Reference model (nothing of it calls the functions under test): sha256(json text) -> int, literal file-name composition,
literal character filter for sanitising, literal count shortening, strict type-sensitive deep comparison of loaded fields.
"""
import copy
import hashlib
import itertools
import json
import os
import subprocess
import sys

MOD = "mzcheck.checks.c18"

# ------------------------------------------------------------------------------------------------ the value lattice
NAMES = ["test", "My maze/v1.0 (x)_y-z"]
GRIDS = [2, 3, 7]
NMAZES = [1, 5, 10000]
SEEDS = [None, 0, 123]  # None = field left at its default
DEFAULT_SEED_VALUE = 42  # muutils.mlutils.DEFAULT_SEED (value only)

# generator kwargs, JSON-native values only; index 0 is always {}
KWARGS = {
    "gen_dfs": [{}, {"do_forks": False}, {"accessible_cells": 3, "max_tree_depth": 2}],
    "gen_wilson": [{}],
    "gen_percolation": [{}, {"p": 0.1}, {"p": 0.7}],
    "gen_dfs_percolation": [{}, {"p": 0.1}, {"p": 0.3, "accessible_cells": 3}],
    "gen_prim": [{}, {"do_forks": False}, {"accessible_cells": 3, "max_tree_depth": 2}],
}

# endpoint options: coordinate lists are lists of tuples (the documented type), bools and None otherwise
ENDPOINTS = {
    "E0": {},
    "E1": {"deadend_start": True, "deadend_end": False},
    "E2": {"allowed_start": [(0, 0)], "allowed_end": None},
    "E3": {"allowed_start": [(0, 0), (1, 1)], "allowed_end": [(1, 0), (0, 1), (1, 1)], "endpoints_not_equal": True},
    "E4": {"except_when_invalid": True, "deadend_end": True, "allowed_end": [(1, 1)]},
    "E5": {"allowed_start": None, "allowed_end": None, "deadend_start": False},
    # extras (star only)
    "E6": {"allowed_start": []},
    "E7": {"allowed_end": [(0, 1), (0, 1)]},
}
EP_PRODUCT = ["E0", "E1", "E2", "E3", "E4", "E5"]
EP_EXTRA = ["E6", "E7"]

# recorded filters, exactly as the library's filter wrappers record them: dict(name, args=<tuple>, kwargs=<dict>)
FILTERS = {
    "F0": [],
    "F1": [dict(name="path_length", args=(3,), kwargs={})],
    "F2": [dict(name="path_length", args=(), kwargs={"min_length": 3}),
           dict(name="cut_percentile_shortest", args=(10.0,), kwargs={})],
    "F3": [dict(name="remove_duplicates", args=(1, None), kwargs={"_max_dataset_len_threshold": 1000}),
           dict(name="collect_generation_meta", args=(), kwargs={"clear_in_mazes": True})],
    # nested coordinate args, in the form JSON can carry (lists)
    "F4": [dict(name="__custom__:near", args=([[0, 0], [1, 1]], "x"), kwargs={"pos": [1, 2], "tol": 0.5})],
    # nested coordinate args as tuples: JSON text cannot carry the inner tuples; only the documented top-level
    # restoration of `args` is demanded on the JSON path (see _jsonified)
    "F5": [dict(name="__custom__:near", args=(((0, 0), (1, 1)),), kwargs={"pos": (1, 2)}),
           dict(name="truncate_count", args=(7,), kwargs={})],
    # "F6" = whatever MazeDataset.custom_maze_filter really records (built at run time, star only)
}
F_PRODUCT = ["F0", "F1", "F2", "F3", "F4", "F5"]
F_EXTRA = ["F6"]
F_NESTED_TUPLES = {"F5"}

N_EXTRA = [12, 999, 1000, 1500, 123456, 2500000]
NAME_EXTRA = ["a", "x..y--z__", "tab\tnew\nline*?<>|"]
GRID_EXTRA = [1, 50]

FIELDS = ("name", "grid_n", "n_mazes", "maze_ctor", "maze_ctor_kwargs", "endpoint_kwargs", "seed", "applied_filters")
HASHSEEDS = ["0", "1", "2", "4242", "random"]

BASES = [
    ("test", 3, 5, "gen_dfs", "{}", "E0", None, "F0"),
    ("My maze/v1.0 (x)_y-z", 7, 10000, "gen_dfs_percolation", json.dumps({"p": 0.3, "accessible_cells": 3}), "E3", 123, "F2"),
]


def generators():
    """registered generators in registration order; unknown (new) ones get kwargs [{}]"""
    from maze_dataset.generation.generators import GENERATORS_MAP

    return list(GENERATORS_MAP)


def all_specs():
    """the full valid cross product; spec = (name, grid_n, n_mazes, gen, kwargs_json, ep_tag, seed|None, filter_tag)"""
    out = []
    for gen in generators():
        for kw in KWARGS.get(gen, [{}]):
            kwj = json.dumps(kw)
            for name, g, n, ep, seed, f in itertools.product(NAMES, GRIDS, NMAZES, EP_PRODUCT, SEEDS, F_PRODUCT):
                out.append((name, g, n, gen, kwj, ep, seed, f))
    return out


def hamming(a, b):
    return sum(1 for x, y in zip(a, b) if x != y)


def extras():
    """single-field extra values around the plain base (boundary names, counts, grids, endpoint / filter shapes)"""
    b = BASES[0]
    out = []
    for v in NAME_EXTRA:
        out.append((v,) + b[1:])
    for v in GRID_EXTRA:
        out.append(b[:1] + (v,) + b[2:])
    for v in N_EXTRA:
        out.append(b[:2] + (v,) + b[3:])
    for v in EP_EXTRA:
        out.append(b[:5] + (v,) + b[6:])
    for v in F_EXTRA:
        out.append(b[:7] + (v,))
    return out


def enumerate_specs(tier):
    full = all_specs()
    if tier == "quick":
        main = [s for s in full if min(hamming(s, b) for b in BASES) <= 3]
        bound = "Hamming radius 3 around 2 base points of the field lattice"
    else:
        main = full
        bound = "full cross product of the field lattice"
    have = set(main)
    ex = [s for s in extras() if s not in have]
    return main + ex, len(full), bound


def star_specs(radius):
    full = all_specs()
    return [s for s in full if min(hamming(s, b) for b in BASES) <= radius] + extras()


# ------------------------------------------------------------------------------------------------ building configs
def _custom_filter_record():
    """the record MazeDataset.custom_maze_filter really appends to applied_filters (whatever the library does)"""
    import numpy as np
    from maze_dataset import MazeDataset, MazeDatasetConfig, SolvedMaze

    cl = np.zeros((2, 2, 2), dtype=bool)
    cl[1, 0, 0] = True
    m = SolvedMaze(connection_list=cl, solution=[[0, 0], [0, 1]])
    ds = MazeDataset(MazeDatasetConfig(name="c", grid_n=2, n_mazes=1), [m])

    def longish(maze, k=2):
        return len(maze.solution) >= k

    return copy.deepcopy(ds.custom_maze_filter(longish, k=2).cfg.applied_filters)


def filters_of(tag):
    if tag == "F6":
        return _custom_filter_record()
    return copy.deepcopy(FILTERS[tag])


def make_cfg(spec):
    from maze_dataset import MazeDatasetConfig
    from maze_dataset.generation.generators import GENERATORS_MAP

    name, g, n, gen, kwj, ep, seed, f = spec
    kw = dict(name=name, grid_n=g, n_mazes=n, maze_ctor=GENERATORS_MAP[gen], maze_ctor_kwargs=json.loads(kwj),
              endpoint_kwargs=copy.deepcopy(ENDPOINTS[ep]), applied_filters=filters_of(f))
    if seed is not None:
        kw["seed"] = seed
    return MazeDatasetConfig(**kw)


def expected_fields(spec):
    name, g, n, gen, kwj, ep, seed, f = spec
    return dict(name=name, grid_n=g, n_mazes=n, maze_ctor=gen, maze_ctor_kwargs=json.loads(kwj),
                endpoint_kwargs=copy.deepcopy(ENDPOINTS[ep]), seed=DEFAULT_SEED_VALUE if seed is None else seed,
                applied_filters=filters_of(f))


# ------------------------------------------------------------------------------------------------ reference model
def same(a, b):
    """strict, type-sensitive deep equality (tuple != list, True != 1, 1 != 1.0)"""
    if type(a) is not type(b):
        return False
    if isinstance(a, dict):
        return set(a) == set(b) and all(same(a[k], b[k]) for k in a)
    if isinstance(a, (list, tuple)):
        return len(a) == len(b) and all(same(x, y) for x, y in zip(a, b))
    return a == b


def _jsonified(x):
    """what JSON text can carry of x: inner tuples become lists"""
    if isinstance(x, (list, tuple)):
        return [_jsonified(y) for y in x]
    if isinstance(x, dict):
        return {k: _jsonified(v) for k, v in x.items()}
    return x


def expected_filters_after(filters, via_json):
    """in memory nothing changes; through JSON the documented restoration is: `args` is a tuple again, `kwargs` a dict;
    what is inside them is what JSON carried"""
    if not via_json:
        return filters
    out = []
    for rec in filters:
        r = {}
        for k, v in rec.items():
            if k == "args":
                r[k] = tuple(_jsonified(a) for a in v)
            else:
                r[k] = _jsonified(v)
        out.append(r)
    return out


def ref_hash(serialized):
    return int.from_bytes(hashlib.sha256(json.dumps(serialized).encode("utf-8")).digest(), "big")


def ref_sanitize(s):
    return "".join(ch for ch in s if (ch.isalnum() or ch in "._-"))


def ref_shorten(n):
    """shortened count as used in file names (values < 1e3 verbatim, one decimal below 10 units, integer units above)"""
    assert isinstance(n, int) and 0 <= n < 10 ** 9 and n not in (10 ** 6,)
    if n < 1000:
        return str(n)
    for unit, suffix in ((10 ** 6, "M"), (10 ** 3, "K")):
        if n > unit or unit == 10 ** 3:
            if n < unit * 10:
                return f"{n / unit:.1f}{suffix}"
            return f"{int(round(n / unit))}{suffix}"


def ref_fname(name, grid_n, n_mazes, gen, h):
    suffix = gen[len("gen_"):] if gen.startswith("gen_") else gen
    return ref_sanitize(f"{name}-g{grid_n}-n{ref_shorten(n_mazes)}-a_{suffix}-h{h % 10 ** 5}")


def ref_fname_collection(name, n_total, h):
    return ref_sanitize(f"collected-{name}-n{ref_shorten(n_total)}-h{h % 10 ** 5}")


def input_class(spec):
    f, ep = spec[7], spec[5]
    fc = {"F0": "no_filters", "F5": "nested_tuple_filter_args", "F6": "custom_filter_record"}.get(f, "filters")
    ec = "coord_endpoints" if any(isinstance(v, list) for v in ENDPOINTS[ep].values()) else "plain_endpoints"
    return fc, ec


# ------------------------------------------------------------------------------------------------ judging one config
def judge_loaded(loaded, spec, via_json, res, where, rd):
    """field-by-field comparison of a loaded MazeDatasetConfig with what was put in; returns True iff all good"""
    from maze_dataset import MazeDatasetConfig
    from maze_dataset.generation.generators import GENERATORS_MAP

    exp = expected_fields(spec)
    fc, ec = input_class(spec)
    path = "json" if via_json else "direct"
    ok = True

    def bad(field, what):
        nonlocal ok
        ok = False
        cls = fc if field == "applied_filters" else (ec if field == "endpoint_kwargs" else "any")
        res.fail(f"C18|{where}|{path}|{field}|{cls}", f"{where} via {path}: {what}; spec={spec}", rd)

    if type(loaded) is not MazeDatasetConfig:
        bad("type", f"loaded object is {type(loaded).__name__}")
        return False
    for fld in ("name", "grid_n", "n_mazes", "seed"):
        if not same(getattr(loaded, fld), exp[fld]):
            bad(fld, f"{fld}={getattr(loaded, fld)!r}, expected {exp[fld]!r}")
    if loaded.maze_ctor is not GENERATORS_MAP[exp["maze_ctor"]]:
        bad("maze_ctor", f"maze_ctor={loaded.maze_ctor!r} is not GENERATORS_MAP[{exp['maze_ctor']!r}]")
    if not same(loaded.maze_ctor_kwargs, exp["maze_ctor_kwargs"]):
        bad("maze_ctor_kwargs", f"maze_ctor_kwargs={loaded.maze_ctor_kwargs!r}, expected {exp['maze_ctor_kwargs']!r}")
    if not same(loaded.endpoint_kwargs, exp["endpoint_kwargs"]):
        bad("endpoint_kwargs", f"endpoint_kwargs={loaded.endpoint_kwargs!r}, expected {exp['endpoint_kwargs']!r} (coordinates as tuples)")
    ef = expected_filters_after(exp["applied_filters"], via_json)
    if not same(loaded.applied_filters, ef):
        bad("applied_filters", f"applied_filters={loaded.applied_filters!r}, expected {ef!r} (args as tuples)")
    return ok


def judge_cfg(spec, res):
    """all single-config obligations; returns (hash, fname) as observed or None"""
    from maze_dataset import MazeDatasetConfig

    spec = tuple(spec)
    rd = dict(kind="cfg", spec=list(spec))
    fc, ec = input_class(spec)
    exp = expected_fields(spec)
    try:
        cfg = make_cfg(spec)
        ser = cfg.serialize()
        txt = json.dumps(ser)
    except Exception as e:
        res.ev()
        res.fail(f"C18|serialize|raises|{fc}|{type(e).__name__}", f"building / serializing the config raised {e!r:.300}; spec={spec}", rd)
        return None

    # serialized content carries every identity field
    res.ev()
    mc = ser.get("maze_ctor")
    got = dict(name=ser.get("name"), grid_n=ser.get("grid_n"), n_mazes=ser.get("n_mazes"), seed=ser.get("seed"),
               maze_ctor=mc.get("__name__") if isinstance(mc, dict) else mc,
               maze_ctor_kwargs=ser.get("maze_ctor_kwargs"), endpoint_kwargs=ser.get("endpoint_kwargs"),
               applied_filters=ser.get("applied_filters"))
    for fld in FIELDS:
        if _jsonified(got[fld]) != _jsonified(exp[fld]):
            res.fail(f"C18|serialize|content|{fld}", f"serialize()[{fld!r}]={got[fld]!r} does not carry the value {exp[fld]!r}; spec={spec}", rd)

    # identity: hash == documented stable hash of the JSON text
    res.ev()
    want_h = ref_hash(ser)
    h = fn = None
    try:
        h = cfg.stable_hash_cfg()
        if h != want_h:
            res.fail("C18|stable_hash_cfg|MazeDatasetConfig|ne_reference",
                     f"stable_hash_cfg()={h} != sha256-int of json.dumps(serialize())={want_h}; spec={spec}", rd)
    except Exception as e:
        res.fail(f"C18|stable_hash_cfg|MazeDatasetConfig|raises|{type(e).__name__}", f"stable_hash_cfg raised {e!r:.300}; spec={spec}", rd)
    # file name composition
    res.ev()
    want_f = ref_fname(spec[0], spec[1], spec[2], spec[3], want_h)
    try:
        fn = cfg.to_fname()
        if fn != want_f:
            res.fail("C18|to_fname|MazeDatasetConfig|ne_reference", f"to_fname()={fn!r}, reference composition {want_f!r}; spec={spec}", rd)
    except Exception as e:
        res.fail(f"C18|to_fname|MazeDatasetConfig|raises|{type(e).__name__}", f"to_fname raised {e!r:.300}; spec={spec}", rd)

    # round trips
    for via_json in (False, True):
        res.ev()
        path = "json" if via_json else "direct"
        data = json.loads(json.dumps(cfg.serialize())) if via_json else cfg.serialize()
        try:
            loaded = MazeDatasetConfig.load(data)
        except Exception as e:
            res.fail(f"C18|MazeDatasetConfig.load|{path}|raises|{fc}|{type(e).__name__}",
                     f"MazeDatasetConfig.load(serialize()) via {path} raised {type(e).__name__}: {str(e)[:200]}; "
                     f"applied_filters={cfg.applied_filters!r}; spec={spec}", rd)
            continue
        if not judge_loaded(loaded, spec, via_json, res, "MazeDatasetConfig.load", rd):
            continue
        try:
            txt2 = json.dumps(loaded.serialize())
        except Exception as e:
            res.fail(f"C18|MazeDatasetConfig.load|{path}|reserialize_raises|{type(e).__name__}", f"loaded.serialize() raised {e!r}; spec={spec}", rd)
            continue
        if txt2 != txt:
            res.fail(f"C18|MazeDatasetConfig.load|{path}|reserialized_text|{fc}", f"loaded config serializes to different JSON text; spec={spec}", rd)
        if not (via_json and spec[7] in F_NESTED_TUPLES):
            eq, d1, d2 = (cfg == loaded), cfg.diff(loaded), loaded.diff(cfg)
            if eq is not True or d1 != {} or d2 != {}:
                res.fail(f"C18|MazeDatasetConfig.load|{path}|not_equal|{fc}|{ec}",
                         f"cfg == loaded is {eq!r}, cfg.diff(loaded)={d1!r}, loaded.diff(cfg)={d2!r}; spec={spec}", rd)
    if fc != "no_filters" or ec == "coord_endpoints" or spec[4] != "{}":
        res.nontrivial(("cfg", spec))
    return None if (h is None or fn is None) else (h, fn)


def cfg_task(t, res):
    for spec in t["specs"]:
        spec = tuple(spec)
        out = judge_cfg(spec, res)
        if out is not None:
            res.add("cfg_hashes", (spec, "%064x" % out[0], out[1]))
    if t.get("first") and out is not None:
        res.sample(dict(spec=list(t["specs"][0]), fname=out[1], hash_mod_1e5=out[0] % 10 ** 5))


# ------------------------------------------------------------------------------------------------ == / diff on neighbours
def diff_task(t, res):
    """for every base b and every lattice neighbour c (exactly one field different): b != c and b.diff(c) non-empty.
    n_mazes is excluded from comparison by the library on purpose (compare=False) and is not judged."""
    for b in BASES:
        cb = make_cfg(b)
        for c in star_specs(1):
            if hamming(b, c) != 1:
                continue
            fld = FIELDS[[i for i in range(8) if b[i] != c[i]][0]]
            if fld == "n_mazes":
                res.count("n_mazes_neighbours_not_judged")
                continue
            res.ev()
            cc = make_cfg(c)
            rd = dict(kind="diff", a=list(b), b=list(c))
            try:
                eq, d = (cb == cc), cb.diff(cc)
            except Exception as e:
                res.fail(f"C18|diff|raises|{fld}|{type(e).__name__}", f"== / diff raised {e!r} for {b} vs {c}", rd)
                continue
            if eq is not False or not d:
                res.fail(f"C18|diff|blind|{fld}", f"configs differing in {fld}: == gave {eq!r}, diff gave {d!r}; {b} vs {c}", rd)
            res.nontrivial(("diff", b, c))


# ------------------------------------------------------------------------------------------------ collections
def collection_specs():
    b0, b1 = BASES
    members = [b0, b0[:1] + (2,) + b0[2:], b1]  # plain, plain with another grid (one field off), rich
    out = []
    for name in ("coll", "co ll/2"):
        for seed in (None, 7):
            for k in (1, 2, 3):
                for tup in itertools.product(range(3), repeat=k):
                    out.append((name, seed, tuple(tup)))
    return members, out


def make_collection(cspec):
    from maze_dataset.dataset.collected_dataset import MazeDatasetCollectionConfig

    members, _ = collection_specs()
    name, seed, tup = cspec
    kw = dict(name=name, maze_dataset_configs=[make_cfg(members[i]) for i in tup])
    if seed is not None:
        kw["seed"] = seed
    return MazeDatasetCollectionConfig(**kw)


def judge_collection(cspec, res):
    from maze_dataset.dataset.collected_dataset import MazeDatasetCollectionConfig

    cspec = (cspec[0], cspec[1], tuple(cspec[2]))
    members, _ = collection_specs()
    name, seed, tup = cspec
    rd = dict(kind="coll", cspec=[name, seed, list(tup)])
    cc = make_collection(cspec)
    ser = cc.serialize()
    txt = json.dumps(ser)
    res.ev()
    want_h = ref_hash(ser)
    h = cc.stable_hash_cfg()
    if h != want_h:
        res.fail("C18|stable_hash_cfg|MazeDatasetCollectionConfig|ne_reference", f"stable_hash_cfg()={h} != reference {want_h}; {cspec}", rd)
    res.ev()
    want_f = ref_fname_collection(name, sum(members[i][2] for i in tup), want_h)
    fn = cc.to_fname()
    if fn != want_f:
        res.fail("C18|to_fname|MazeDatasetCollectionConfig|ne_reference", f"to_fname()={fn!r}, reference {want_f!r}; {cspec}", rd)
    for via_json in (False, True):
        res.ev()
        path = "json" if via_json else "direct"
        data = json.loads(json.dumps(cc.serialize())) if via_json else cc.serialize()
        try:
            loaded = MazeDatasetCollectionConfig.load(data)
        except Exception as e:
            res.fail(f"C18|MazeDatasetCollectionConfig.load|{path}|raises|{type(e).__name__}", f"load raised {e!r}; {cspec}", rd)
            continue
        if type(loaded) is not MazeDatasetCollectionConfig or not same(loaded.name, name) or \
                not same(loaded.seed, DEFAULT_SEED_VALUE if seed is None else seed) or not same(loaded.applied_filters, []):
            res.fail(f"C18|MazeDatasetCollectionConfig.load|{path}|own_fields",
                     f"loaded collection config {loaded!r:.300} differs in type/name/seed/filters; {cspec}", rd)
            continue
        if not isinstance(loaded.maze_dataset_configs, list) or len(loaded.maze_dataset_configs) != len(tup):
            res.fail(f"C18|MazeDatasetCollectionConfig.load|{path}|member_count", f"{len(loaded.maze_dataset_configs)} members, expected {len(tup)}; {cspec}", rd)
            continue
        good = True
        for lm, i in zip(loaded.maze_dataset_configs, tup):
            good &= judge_loaded(lm, members[i], via_json, res, "MazeDatasetCollectionConfig.load.member", rd)
        if not good:
            continue
        eq, d1 = (cc == loaded), cc.diff(loaded)
        if eq is not True or d1 != {} or json.dumps(loaded.serialize()) != txt:
            res.fail(f"C18|MazeDatasetCollectionConfig.load|{path}|not_equal", f"cc == loaded is {eq!r}, diff={d1!r:.300}; {cspec}", rd)
    res.nontrivial(("coll", cspec))
    return h, fn


def coll_task(t, res):
    for cspec in t["cspecs"]:
        out = judge_collection(cspec, res)
        res.add("coll_hashes", ((cspec[0], cspec[1], tuple(cspec[2])), "%064x" % out[0], out[1]))


# ------------------------------------------------------------------------------------------------ other interpreters
CHILD_CODE = "import sys; sys.path.insert(0, %r); from mzcheck.checks import c18; c18.child_main()"


def child_main():
    """runs in a fresh interpreter with the PYTHONHASHSEED under test: print hash and file name of the configs on stdin"""
    from .. import runner

    runner.bind_repo()
    req = json.loads(sys.stdin.read())
    out = dict(probe=hash("mzcheck-c18"), hash_randomization=sys.flags.hash_randomization, cfgs=[], colls=[])
    for spec in req["specs"]:
        c = make_cfg(tuple(spec))
        out["cfgs"].append(["%064x" % c.stable_hash_cfg(), c.to_fname()])
    for cs in req["cspecs"]:
        c = make_collection((cs[0], cs[1], tuple(cs[2])))
        out["colls"].append(["%064x" % c.stable_hash_cfg(), c.to_fname()])
    sys.stdout.write("\nC18CHILD " + json.dumps(out) + "\n")


def start_child(hashseed, specs, cspecs):
    from ..runner import VERIF

    env = dict(os.environ)
    env["PYTHONHASHSEED"] = hashseed
    p = subprocess.Popen([sys.executable, "-c", CHILD_CODE % str(VERIF)], cwd=str(VERIF), env=env, stdin=subprocess.PIPE,
                         stdout=subprocess.PIPE, stderr=subprocess.PIPE, text=True)
    p._req = json.dumps(dict(specs=[list(s) for s in specs], cspecs=[[c[0], c[1], list(c[2])] for c in cspecs]))
    return p


def finish_child(p):
    out, err = p.communicate(p._req)
    lines = [ln for ln in out.splitlines() if ln.startswith("C18CHILD ")]
    if p.returncode != 0 or not lines:
        raise RuntimeError(f"hash-seed child failed rc={p.returncode}: {err[-800:]}")
    return json.loads(lines[-1][len("C18CHILD "):])


def hashseed_specs(tier):
    specs = star_specs(1 if tier == "quick" else 2)
    _, cspecs = collection_specs()
    if tier == "quick":
        cspecs = cspecs[::4]
    return specs, cspecs


def hashseed_task(t, res):
    specs, cspecs = hashseed_specs(t["tier"])
    out = finish_child(start_child(t["hashseed"], specs, cspecs))
    res.add("hs_probe", (t["hashseed"], out["probe"], out["hash_randomization"]))
    for s, (h, fn) in zip(specs, out["cfgs"]):
        res.add("hs_cfg", (t["hashseed"], tuple(s), h, fn))
    for c, (h, fn) in zip(cspecs, out["colls"]):
        res.add("hs_coll", (t["hashseed"], c, h, fn))


# ------------------------------------------------------------------------------------------------ driver
def any_task(t, res):
    if t["kind"] == "history":
        from . import c18_hist

        return c18_hist.history_task(t, res)
    {"cfg": cfg_task, "diff": diff_task, "coll": coll_task, "hashseed": hashseed_task}[t["kind"]](t, res)


task = any_task


def run(ctx):
    specs, n_full, bound = enumerate_specs(ctx.tier)
    members, cspecs = collection_specs()
    nchunks = 32 if ctx.quick else 64
    tasks = [dict(kind="cfg", specs=[list(s) for s in specs[i::nchunks]], first=(i == 0)) for i in range(nchunks)]
    tasks += [dict(kind="coll", cspecs=[[c[0], c[1], list(c[2])] for c in cspecs[i::4]]) for i in range(4)]
    tasks += [dict(kind="diff")]
    tasks += [dict(kind="hashseed", hashseed=h, tier=ctx.tier) for h in HASHSEEDS]
    from . import c18_hist

    hist_depth = 3 if ctx.quick else 4
    tasks += [dict(kind="history", pair=pi, first=f, depth=hist_depth) for pi in range(2) for f in c18_hist.ALPHABET]
    ctx.pmap(MOD, "any_task", tasks)
    res = ctx.res

    # ---- pairs differing in exactly one field: hashes must differ (and, stronger, all hashes are pairwise distinct)
    H = {s: (h, fn) for (s, h, fn) in res.sets.get("cfg_hashes", ())}
    missing = [s for s in specs if s not in H]
    if missing and not res.fails:
        raise RuntimeError(f"no hash reported for {len(missing)} configs, e.g. {missing[0]}")
    specs = [s for s in specs if s in H]
    n_pairs = {f: 0 for f in FIELDS}
    for fi, fld in enumerate(FIELDS):
        groups = {}
        for s in specs:
            groups.setdefault(s[:fi] + s[fi + 1:], []).append(s)
        for grp in groups.values():
            for a, b in itertools.combinations(grp, 2):
                res.ev()
                n_pairs[fld] += 1
                res.nontrivial(("pair", a, b))
                if H[a][0] == H[b][0]:
                    res.fail(f"C18|stable_hash_cfg|one_field_pair|{fld}|equal_hash",
                             f"configs differing only in {fld} have the same stable_hash_cfg {int(H[a][0], 16)}: {a} vs {b}",
                             dict(kind="pair", a=list(a), b=list(b)))
    by_hash = {}
    for s in specs:
        by_hash.setdefault(H[s][0], []).append(s)
    res.ev()
    for grp in by_hash.values():
        if len(grp) > 1 and min(hamming(a, b) for a, b in itertools.combinations(grp, 2)) > 1:
            a, b = grp[0], grp[1]
            res.fail("C18|stable_hash_cfg|multi_field_pair|equal_hash", f"different configs with the same hash: {a} vs {b}",
                     dict(kind="pair", a=list(a), b=list(b)))
    # collections: differing in name / seed / one member / member count / order
    CH = {c: (h, fn) for (c, h, fn) in res.sets.get("coll_hashes", ())}
    n_cpairs = 0
    for a, b in itertools.combinations(cspecs, 2):
        res.ev()
        n_cpairs += 1
        if CH[a][0] == CH[b][0]:
            res.fail("C18|stable_hash_cfg|collection_pair|equal_hash", f"different collection configs with the same hash: {a} vs {b}",
                     dict(kind="cpair", a=[a[0], a[1], list(a[2])], b=[b[0], b[1], list(b[2])]))

    # ---- other interpreters: every child reports the same hash and file name as this run's workers
    probes = sorted(res.sets.get("hs_probe", ()))
    hs_cfg = {}
    for (seed, s, h, fn) in res.sets.get("hs_cfg", ()):
        hs_cfg.setdefault(s, {})[seed] = (h, fn)
    hs_coll = {}
    for (seed, c, h, fn) in res.sets.get("hs_coll", ()):
        hs_coll.setdefault(c, {})[seed] = (h, fn)
    for table, here, kind in ((hs_cfg, H, "MazeDatasetConfig"), (hs_coll, CH, "MazeDatasetCollectionConfig")):
        for s, per_seed in sorted(table.items(), key=repr):
            if len(per_seed) != len(HASHSEEDS):
                raise RuntimeError(f"children missing for {s}: {sorted(per_seed)}")
            for seed in HASHSEEDS:
                res.ev()
                if s in here and per_seed[seed] != here[s]:
                    res.fail(f"C18|stable_hash_cfg|{kind}|process_dependent",
                             f"hash / file name differ between interpreter processes: PYTHONHASHSEED={seed} gives {per_seed[seed]}, "
                             f"the exploring worker got {here[s]}; config {s}",
                             dict(kind="hashseed", which=kind, spec=_jsonified(s)))
            res.nontrivial(("hs", s))

    ctx.coverage.update(
        configs=len(specs), full_product=n_full, bound=bound, collection_configs=len(cspecs),
        one_field_pairs=n_pairs, collection_pairs=n_cpairs, distinct_hashes=len(by_hash),
        hashseed_children=[(p[0], p[2]) for p in probes], hashseed_distinct_str_hashes=len({p[1] for p in probes}),
        hashseed_configs=len(hs_cfg), hashseed_collections=len(hs_coll),
        live_object_histories=dict(alphabet=c18_hist.ALPHABET, depth=hist_depth, start_points=2, histories=res.counters.get("histories", 0)),
        values=dict(name=NAMES + NAME_EXTRA, grid_n=GRIDS + GRID_EXTRA, n_mazes=NMAZES + N_EXTRA, generators=generators(),
                    kwargs_per_generator={g: len(KWARGS.get(g, [{}])) for g in generators()}, endpoint_options=len(ENDPOINTS),
                    seeds=["default", 0, 123], filter_lists=len(FILTERS) + 1),
    )
    ctx.rule = ("every config of the stated sub-lattice is built, hashed, named, serialized and loaded directly and through JSON text; "
                "every pair differing in exactly one field is compared by hash; every star config is re-hashed in 5 child interpreters; every sequence of "
                "<= 3 (thorough 4) observations / in-place field changes on one live config object is compared with a fresh config of the same fields; "
                "distinct = distinct configs with non-default kwargs/coordinate endpoints/filters, distinct one-field pairs, "
                "distinct configs compared across interpreters")
    ctx.exhaustive = True
    ctx.assumptions += [
        "filter arguments that are tuples nested inside args/kwargs (F5) cannot be told from lists in JSON text: on the JSON path only "
        "the top-level restoration of `args` to a tuple is demanded for them, and ==/diff is not judged",
        "n_mazes is excluded from == / diff by the library on purpose (compare=False); it is judged by hash, file name and field value only",
        "PYTHONHASHSEED: five values (0, 1, 2, 4242, random)",
    ]


# ------------------------------------------------------------------------------------------------ replay
def replay(d, res):
    k = d["kind"]
    if k == "history":
        from . import c18_hist

        return c18_hist.replay(d, res)
    if k == "cfg":
        judge_cfg(tuple(d["spec"]), res)
    elif k == "coll":
        judge_collection(d["cspec"], res)
    elif k == "diff":
        a, b = tuple(d["a"]), tuple(d["b"])
        ca, cb = make_cfg(a), make_cfg(b)
        if (ca == cb) is not False or not ca.diff(cb):
            res.fail("C18|diff|blind|replay", f"{a} vs {b}: == {ca == cb!r}, diff {ca.diff(cb)!r}", d)
    elif k == "pair":
        a, b = tuple(d["a"]), tuple(d["b"])
        if make_cfg(a).stable_hash_cfg() == make_cfg(b).stable_hash_cfg():
            res.fail("C18|stable_hash_cfg|pair|equal_hash", f"same hash for {a} and {b}", d)
    elif k == "cpair":
        a, b = d["a"], d["b"]
        ha = make_collection((a[0], a[1], tuple(a[2]))).stable_hash_cfg()
        hb = make_collection((b[0], b[1], tuple(b[2]))).stable_hash_cfg()
        if ha == hb:
            res.fail("C18|stable_hash_cfg|collection_pair|equal_hash", f"same hash for {a} and {b}", d)
    elif k == "hashseed":
        if d["which"] == "MazeDatasetConfig":
            spec = tuple(d["spec"])
            specs, cspecs = [spec], []
            here = make_cfg(spec)
        else:
            c = (d["spec"][0], d["spec"][1], tuple(d["spec"][2]))
            specs, cspecs = [], [c]
            here = make_collection(c)
        mine = ["%064x" % here.stable_hash_cfg(), here.to_fname()]
        kids = [start_child(h, specs, cspecs) for h in HASHSEEDS]
        outs = [finish_child(p) for p in kids]
        got = [(o["cfgs"] + o["colls"])[0] for o in outs]
        if any(g != mine for g in got):
            res.fail("C18|stable_hash_cfg|process_dependent", f"children report {got}, this process {mine}", d)
