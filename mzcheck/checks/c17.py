"""C17 Rasterised input/target images show the problem and only the solution (DESIGN 5/C17)

Enumerated: every connection structure on the listed small grids x every stored solution (every simple path on <= 6
cells, every shortest path of every ordered cell pair incl. start == end above that) x all 8 option combinations through
`process_maze_rasterized_input_target`; fixed structured 5x5..10x10 mazes; `RasterizedMazeDataset[i]`,
`get_batch(idxs)` for None and every index tuple of length 1..3 over 3 items (all permutations and all repeats), and
`from_base_MazeDataset` with every added-parameter combination.
Oracle (written from the statement, pixel by pixel, plain lists): input = picture with endpoints, path as open;
target = wall except solution cells / in-between pixels open, endpoints coloured or open; remove_isolated: a non-wall
pixel whose four neighbours are all wall (or outside) becomes wall; extend: each pixel doubled, one-pixel wall frame.
"""
import itertools

import numpy as np

from .. import refmodel as R
from .c10 import capped_shortest_paths, landmark_cells, structured

MOD = "mzcheck.checks.c17"
NAMES = {R.WALL: "WALL", R.OPEN: "OPEN", R.START: "START", R.END: "END", R.PATH: "PATH"}
OPTS = sorted(itertools.product((False, True), repeat=3), key=lambda o: (sum(o), o))  # (remove_isolated, extend, endpoints_as_open)


def optname(o):
    return f"ric={int(o[0])},ext={int(o[1])},eao={int(o[2])}"


# ------------------------------------------------------------------ reference
def ref_input(r, c, adj, sol, end_colour=R.END):
    H, W = 2 * r + 1, 2 * c + 1
    img = [[R.WALL] * W for _ in range(H)]
    for (i, j), nb in adj.items():
        img[2 * i + 1][2 * j + 1] = R.OPEN
        for (k, l) in nb:
            img[i + k + 1][j + l + 1] = R.OPEN
    s, e = sol[0], sol[-1]
    img[2 * s[0] + 1][2 * s[1] + 1] = R.START
    img[2 * e[0] + 1][2 * e[1] + 1] = end_colour if s == e else R.END
    return img


def ref_target(r, c, sol, eao, end_colour=R.END):
    H, W = 2 * r + 1, 2 * c + 1
    img = [[R.WALL] * W for _ in range(H)]
    for (i, j) in sol:
        img[2 * i + 1][2 * j + 1] = R.OPEN
    for (i, j), (k, l) in zip(sol[:-1], sol[1:]):
        img[i + k + 1][j + l + 1] = R.OPEN
    if not eao:
        s, e = sol[0], sol[-1]
        img[2 * s[0] + 1][2 * s[1] + 1] = R.START
        img[2 * e[0] + 1][2 * e[1] + 1] = end_colour if s == e else R.END
    return img


def ref_remove_isolated(img):
    H, W = len(img), len(img[0])
    out = [list(row) for row in img]
    for y in range(H):
        for x in range(W):
            if img[y][x] == R.WALL:
                continue
            has_open = False
            for dy, dx in ((1, 0), (-1, 0), (0, 1), (0, -1)):
                yy, xx = y + dy, x + dx
                if 0 <= yy < H and 0 <= xx < W and img[yy][xx] != R.WALL:
                    has_open = True
            if not has_open:
                out[y][x] = R.WALL
    return out


def ref_extend(img):
    H, W = len(img), len(img[0])
    out = [[R.WALL] * (2 * W + 2) for _ in range(2 * H + 2)]
    for y in range(H):
        for x in range(W):
            for dy in (0, 1):
                for dx in (0, 1):
                    out[1 + 2 * y + dy][1 + 2 * x + dx] = img[y][x]
    return out


def ref_pair(r, c, adj, sol, opt, end_colour=R.END):
    ric, ext, eao = opt
    a, b = ref_input(r, c, adj, sol, end_colour), ref_target(r, c, sol, eao, end_colour)
    if ric:
        a, b = ref_remove_isolated(a), ref_remove_isolated(b)
    if ext:
        a, b = ref_extend(a), ref_extend(b)
    return np.array([a, b], dtype=np.uint8)


def refs(r, c, adj, sol, opt):
    """acceptable reference tensors (two when start == end: the one cell may carry either endpoint colour)"""
    out = [ref_pair(r, c, adj, sol, opt)]
    if sol[0] == sol[-1]:
        out.append(ref_pair(r, c, adj, sol, opt, R.START))
    return out


def to_np(t):
    import torch

    if isinstance(t, torch.Tensor):
        return t.detach().cpu().numpy()
    return np.asarray(t)


def tensor_diff(got, want_list):
    """'' when got equals one of the references; else (which image, signature)"""
    g = to_np(got)
    w = want_list[0]
    if g.shape != w.shape:
        return f"shape:{tuple(g.shape)}!={tuple(w.shape)}"
    for w in want_list:
        if np.array_equal(g, w):
            return ""
    w = want_list[0]
    parts = []
    for k, which in enumerate(("input", "target")):
        sig = set()
        ys, xs = np.nonzero((g[k] != w[k]).any(axis=-1))
        for y, x in zip(ys.tolist(), xs.tolist()):
            e, o = tuple(int(v) for v in w[k][y, x]), tuple(int(round(float(v))) for v in g[k][y, x])
            sig.add(f"{NAMES[e]}->{NAMES.get(o, 'other')}")
        if sig:
            parts.append(which + ":" + "+".join(sorted(sig)))
    return "|".join(parts)


def show(arr):
    code = {v: k for k, v in dict(WALL="#", OPEN=" ", START="S", END="E", PATH="X").items()}
    a = to_np(arr)
    return "\n".join("".join(code.get(NAMES.get(tuple(int(round(float(v))) for v in px), "?"), "?") for px in row) for row in a)


# ------------------------------------------------------------------ one maze through the process function
def build(r, c, bits, sol):
    from maze_dataset.maze import SolvedMaze

    return SolvedMaze(connection_list=R.graph_from_bits(r, c, bits), solution=np.array(sol))


def check_process(r, c, bits, sol, res, adj=None):
    from maze_dataset.dataset.rasterized import process_maze_rasterized_input_target

    sol = [tuple(p) for p in sol]
    if adj is None:
        adj = R.adjacency(R.graph_from_bits(r, c, bits))
    m = build(r, c, bits, sol)
    rd = dict(what="process", r=r, c=c, bits=bits, sol=sol)
    res.nontrivial((r, c, bits, tuple(sol)))
    failed = []
    for opt in OPTS:  # ordered by number of options switched on
        res.ev()
        ric, ext, eao = opt
        want = refs(r, c, adj, sol, opt)
        key = what = None
        try:
            got = process_maze_rasterized_input_target(m, remove_isolated_cells=ric, extend_pixels=ext, endpoints_as_open=eao)
        except Exception as ex:
            key = f"C17|process|raises|{type(ex).__name__}"
            what = f"raised {type(ex).__name__}: {str(ex)[:200]}"
        else:
            d = tensor_diff(got, want)
            if d:
                key = f"C17|process|{d}"
                g = to_np(got)
                what = (f"differs ({d})" + (f"\n input got:\n{show(g[0])}\n input expected:\n{show(want[0][0])}\n target got:\n{show(g[1])}\n target expected:\n{show(want[0][1])}"
                                           if g.ndim == 4 and g.shape[1] <= 16 else ""))
        if key:
            # a defect that shows with fewer options switched on is reported there only (one defect -> few keys)
            if any(all(f[i] <= opt[i] for i in range(3)) for f in failed):
                res.count("violating_cases_implied_by_smaller_option_set")
            else:
                res.fail(f"{key}|{optname(opt)}", f"process_maze_rasterized_input_target({optname(opt)}) on SolvedMaze {r}x{c} bits={bits} solution={sol}: {what}", rd)
            failed.append(opt)
    # which non-degenerate branches did this maze exercise
    deg0 = [v for v in adj if not adj[v]]
    if deg0:
        res.count("mazes_with_isolated_cells")
    if len(sol) == 1:
        res.count("mazes_start_eq_end")
    if len(sol) == 1 and not adj[sol[0]]:
        res.count("mazes_start_eq_end_on_isolated_cell")


def solutions_of_graph(r, c, adj, all_simple):
    cells = R.cells(r, c)
    if all_simple:
        for s in cells:
            for p in R.simple_paths(adj, s, r * c):
                yield p
    else:
        for s in cells:
            for e in cells:
                for p in R.all_shortest_paths(adj, s, e):
                    yield p


def graph_task(t, res):
    r, c = t["shape"]
    for bits in t["bits"]:
        adj = R.adjacency(R.graph_from_bits(r, c, bits))
        for p in solutions_of_graph(r, c, adj, t["simple"]):
            check_process(r, c, bits, p, res, adj)
            res.count("solved_mazes")
            if len(p) >= 4 and any(not adj[v] for v in adj):
                res.sample(dict(shape=[r, c], bits=bits, solution=p), cap=1)


def mixed_task(t, res):
    """same-cell-count shapes interleaved in one fresh interpreter: graph by graph, each with its shortest solutions between the
    first and the last cell and one start == end solution, under all option combinations"""
    per = []
    for (r, c) in t["group"]:
        per.append([(r, c, b) for b in range(R.n_graphs(r, c))])
    seq = [x for k in range(max(map(len, per))) for x in (p[k] for p in per if k < len(p))]
    if t["order"] == "reversed":
        seq = seq[::-1]
    sub = type(res)()
    for (r, c, bits) in seq:
        adj = R.adjacency(R.graph_from_bits(r, c, bits))
        cells = R.cells(r, c)
        sols = [[cells[0]]] + R.all_shortest_paths(adj, cells[0], cells[-1])[:2] + R.all_shortest_paths(adj, cells[-1], cells[1])[:1]
        for p in sols:
            check_process(r, c, bits, p, sub, adj)
            res.count("mixed_sequence_mazes")
    res.evaluations += sub.evaluations
    res.distinct |= sub.distinct
    for f in sub.fails:  # own keys: must not be shadowed by a same-key failure of an ordinary task in a poisoned worker
        res.fail(f["key"] + "|in_mixed_shape_sequence", f"shapes {t['group']} interleaved ({t['order']}) in one fresh interpreter: " + f["what"], f["replay"])


def structured_task(t, res):
    r, c = t["shape"]
    fam = structured(r, c)
    for name in t["names"]:
        bits = fam[name]
        adj = R.adjacency(R.graph_from_bits(r, c, bits))
        L = landmark_cells(r, c)
        for s, e in itertools.product(L, L):
            for p in capped_shortest_paths(adj, s, e, t["cap"]):
                check_process(r, c, bits, p, res, adj)
                res.count("solved_mazes")
                res.count("structured_solved_mazes")


# ------------------------------------------------------------------ dataset layer
def dataset_groups(n, tier):
    """fixed triples of solved n x n mazes (distinct pictures within a triple)"""
    groups = []
    if n == 2:
        allm = []
        for bits in range(R.n_graphs(2, 2)):
            adj = R.adjacency(R.graph_from_bits(2, 2, bits))
            for p in solutions_of_graph(2, 2, adj, True):
                allm.append((bits, p))
        for k in range(0, len(allm) - 2, 3 if tier == "thorough" else 9):
            groups.append(allm[k:k + 3])
    else:
        fam = structured(n, n)
        names = sorted(fam)
        tr = R.trees(3, 3) if n == 3 else None
        srcs = ([(f"t{k}", b) for k, b in enumerate(tr[:: (4 if tier == "quick" else 1)])] if n == 3 else []) + [(nm, fam[nm]) for nm in names]
        pairs = [((0, 0), (n - 1, n - 1)), ((n - 1, 0), (0, 1)), ((n // 2, n // 2), (n // 2, n // 2)), ((0, n - 1), (n - 1, 0))]
        for nm, bits in srcs:
            adj = R.adjacency(R.graph_from_bits(n, n, bits))
            g = []
            for s, e in pairs:
                ps = capped_shortest_paths(adj, s, e, 2)
                if ps:
                    g.append((bits, ps[-1]))
            if len(g) >= 3:
                groups.append(g[:3])
    return groups


IDX_LISTS = [None] + [list(t) for k in (1, 2, 3) for t in itertools.product(range(3), repeat=k)]


def idx_class(idxs):
    if idxs is None:
        return "None"
    if len(set(idxs)) < len(idxs):
        return f"len{len(idxs)}_repeat"
    return f"len{len(idxs)}_" + ("ascending" if idxs == sorted(idxs) else "permuted")


def check_dataset_group(n, group, res):
    from maze_dataset import MazeDataset, MazeDatasetConfig
    from maze_dataset.dataset.rasterized import RasterizedMazeDataset, RasterizedMazeDatasetConfig

    group = [(b, [tuple(p) for p in sol]) for b, sol in group]
    rd = dict(what="dataset", n=n, group=group)
    desc = f"{n}x{n} mazes {[(b, sol) for b, sol in group]}"
    adjs = [R.adjacency(R.graph_from_bits(n, n, b)) for b, _ in group]
    res.nontrivial(("ds", n, tuple((b, tuple(sol)) for b, sol in group)))

    failed_at = {}

    def judge_items(ds, opt, site):
        want = [refs(n, n, adjs[i], group[i][1], opt) for i in range(3)]
        items = []
        failed = failed_at.setdefault(site, [])
        for i in range(3):
            res.ev()
            try:
                it = ds[i]
            except Exception as ex:
                res.fail(f"C17|{site}|getitem|raises|{type(ex).__name__}", f"{site} ds[{i}] raised {ex!r} ({optname(opt)}) for {desc}", rd)
                return None
            d = tensor_diff(it, want[i])
            if d:
                if any(all(f[k] <= opt[k] for k in range(3)) and f != opt for f in failed):
                    res.count("violating_cases_implied_by_smaller_option_set")
                else:
                    res.fail(f"C17|{site}|getitem|{d}|{optname(opt)}", f"{site} ds[{i}] differs from the stated images ({d}), {optname(opt)}, {desc}", rd)
                failed.append(opt)
            items.append(to_np(it))
        return items

    for opt in OPTS:
        ric, ext, eao = opt
        mazes = [build(n, n, b, sol) for b, sol in group]
        cfg = RasterizedMazeDatasetConfig(name="c17", grid_n=n, n_mazes=3, remove_isolated_cells=ric, extend_pixels=ext, endpoints_as_open=eao)
        ds = RasterizedMazeDataset(cfg=cfg, mazes=mazes)
        items = judge_items(ds, opt, "dataset")
        if items is None:
            continue
        for idxs in IDX_LISTS:
            res.ev()
            ic = idx_class(idxs)
            order = list(range(3)) if idxs is None else idxs
            try:
                b = to_np(ds.get_batch(None if idxs is None else list(idxs)))
            except Exception as ex:
                res.fail(f"C17|get_batch|{ic}|raises|{type(ex).__name__}", f"get_batch({idxs}) raised {ex!r} ({optname(opt)}) for {desc}", rd)
                continue
            want = np.stack([np.stack([items[i][0] for i in order]), np.stack([items[i][1] for i in order])])
            if b.shape != want.shape:
                res.fail(f"C17|get_batch|{ic}|shape", f"get_batch({idxs}) has shape {b.shape}, expected {want.shape} ({optname(opt)}) for {desc}", rd)
            elif not np.array_equal(b, want):
                # say whether it is the right set of items in the wrong order
                perm = None
                for cand in itertools.product(range(3), repeat=len(order)):
                    w2 = np.stack([np.stack([items[i][0] for i in cand]), np.stack([items[i][1] for i in cand])])
                    if np.array_equal(b, w2):
                        perm = cand
                        break
                sym = "order" if perm is not None else "content"
                res.fail(f"C17|get_batch|{ic}|{sym}", f"get_batch({idxs}) is not the stack [inputs; targets] of items {order} in that order"
                         + (f" (it is the stack of items {list(perm)})" if perm else "") + f", {optname(opt)}, {desc}", rd)
            res.count("batches")
        # items read again after all the batches, in another order with repeats: same images as the first time
        res.ev()
        try:
            for i in (2, 0, 1, 1, 0, 2, 0):
                again = to_np(ds[i])
                if not (np.array_equal(again[0], items[i][0]) and np.array_equal(again[1], items[i][1])):
                    res.fail(f"C17|dataset|getitem_again|differs|{optname(opt)}", f"ds[{i}] read again (order 2,0,1,1,0,2,0 after the batches) differs from the "
                             f"first read, {optname(opt)}, {desc}", rd)
                    break
        except Exception as ex:
            res.fail(f"C17|dataset|getitem_again|raises|{type(ex).__name__}", f"re-reading items raised {ex!r} ({optname(opt)}) for {desc}", rd)
    # from_base_MazeDataset: the added parameters decide the images; None means the documented defaults
    base_cfg = MazeDatasetConfig(name="c17", grid_n=n, n_mazes=3)
    added = [None] + [dict(remove_isolated_cells=o[0], extend_pixels=o[1], endpoints_as_open=o[2]) for o in OPTS] \
        + [dict(endpoints_as_open=True), dict(extend_pixels=False), dict(remove_isolated_cells=False)]
    for ap in added:
        full = dict(remove_isolated_cells=True, extend_pixels=True, endpoints_as_open=False)
        full.update(ap or {})
        opt = (full["remove_isolated_cells"], full["extend_pixels"], full["endpoints_as_open"])
        base = MazeDataset(cfg=base_cfg, mazes=[build(n, n, b, sol) for b, sol in group])
        try:
            ds2 = RasterizedMazeDataset.from_base_MazeDataset(base, added_params=None if ap is None else dict(ap))
        except Exception as ex:
            res.ev()
            res.fail(f"C17|from_base|raises|{type(ex).__name__}", f"from_base_MazeDataset(added_params={ap}) raised {ex!r} for {desc}", rd)
            continue
        site = "from_base" + ("(None)" if ap is None else ("(partial)" if len(ap) < 3 else ""))
        judge_items(ds2, opt, site)
        res.count("from_base_datasets")


def dataset_task(t, res):
    groups = dataset_groups(t["n"], t["tier"])
    for g in groups[t["lo"]:t["hi"]]:
        check_dataset_group(t["n"], g, res)
        res.count("dataset_groups")
    if t["lo"] == 0 and groups:
        res.sample(dict(dataset_group=dict(n=t["n"], mazes=groups[0]), index_lists=len(IDX_LISTS)), cap=1)


# ------------------------------------------------------------------ plan
def sparse_dense_33():
    """3x3 in the quick tier: every spanning tree, every graph with <= 2 edges (isolated cells) or <= 1 edge missing"""
    E = len(R.lattice_edges(3, 3))
    full = (1 << E) - 1
    out = set(R.trees(3, 3))
    for k in range(3):
        for combo in itertools.combinations(range(E), k):
            b = 0
            for x in combo:
                b |= 1 << x
            out.add(b)
            if k <= 1:
                out.add(full & ~b)
    return sorted(out)


SMALL = [(1, 1), (1, 2), (2, 1), (1, 3), (3, 1), (2, 2), (2, 3), (3, 2)]


def plan(tier):
    tasks, cov = [], {}
    for (r, c) in SMALL:
        n = R.n_graphs(r, c)
        nchunk = 1 if n <= 16 else 6
        for k in range(nchunk):
            tasks.append(("graph_task", dict(shape=[r, c], bits=list(range(n))[k::nchunk], simple=True)))
        cov[f"G({r},{c}) x all simple paths"] = n
    if tier == "quick":
        bits = sparse_dense_33()
        for k in range(10):
            tasks.append(("graph_task", dict(shape=[3, 3], bits=bits[k::10], simple=False)))
        cov["G(3,3) subset (trees, <=2 edges, <=1 edge missing) x all pairs x all shortest paths"] = len(bits)
        struct = [(5, 5), (4, 6)]
    else:
        for (r, c) in [(3, 3), (2, 4), (4, 2)]:
            n = R.n_graphs(r, c)
            nchunk = 64 if n > 1024 else 16
            for k in range(nchunk):
                tasks.append(("graph_task", dict(shape=[r, c], bits=list(range(n))[k::nchunk], simple=False)))
            cov[f"G({r},{c}) x all pairs x all shortest paths"] = n
        struct = [(5, 5), (4, 6), (6, 4), (8, 8), (10, 10), (3, 9), (9, 3)]
    for (r, c) in struct:
        names = sorted(structured(r, c))
        per = 6 if r * c <= 36 else 3
        for k in range(0, len(names), per):
            tasks.append(("structured_task", dict(shape=[r, c], names=names[k:k + per], cap=4 if tier == "quick" else 8)))
        cov[f"structured({r},{c})"] = len(names)
    for n in ((2, 3) if tier == "quick" else (2, 3, 5, 10)):
        ng = len(dataset_groups(n, tier))
        step = max(1, -(-ng // (6 if n <= 3 else 4)))
        for lo in range(0, ng, step):
            tasks.append(("dataset_task", dict(n=n, tier=tier, lo=lo, hi=min(ng, lo + step))))
        cov[f"dataset_groups({n}x{n})"] = ng
    return tasks, cov


def any_task(t, res):
    globals()[t["fn"]](t["arg"], res)


def run(ctx):
    tasks, cov = plan(ctx.tier)
    ctx.pmap(MOD, "any_task", [dict(fn=fn, arg=arg) for fn, arg in tasks])
    # the small exhaustive spaces again in interpreters started with other hash seeds (iteration order of sets of strings)
    hs_tasks = [dict(fn="graph_task", arg=dict(shape=[r, c], bits=list(range(R.n_graphs(r, c))), simple=True)) for (r, c) in [(1, 3), (3, 1), (2, 2)]]
    for hs in (("4", "7", "123") if ctx.quick else ("1", "2", "3", "4", "5", "6", "7", "123", "4242")):
        ctx.pmap(MOD, "any_task", hs_tasks, hashseed=hs)
    groups = [[(2, 3), (3, 2)], [(1, 4), (4, 1), (2, 2)], [(1, 3), (3, 1)]]
    ctx.pmap(MOD, "any_task", [dict(fn="mixed_task", arg=dict(group=g, order=o)) for g in groups for o in ("interleaved", "reversed")], fresh=True)
    ctx.coverage.update(bounds=cov, mixed_sequences=dict(groups=[[list(x) for x in g] for g in groups], orders=["interleaved", "reversed"],
                                                         mazes=ctx.res.counters.get("mixed_sequence_mazes", 0)), option_combinations=[optname(o) for o in OPTS], index_lists_per_dataset=len(IDX_LISTS))
    ctx.rule = ("every connection structure of the listed grids x every stored solution (all simple paths on <= 6 cells; all shortest paths of all "
                "ordered pairs incl. start == end on larger ones) x 8 option combinations through process_maze_rasterized_input_target; "
                "triples of n x n mazes x 8 configs x {ds[i], get_batch(None), get_batch of all 39 index tuples of length 1..3, "
                "from_base_MazeDataset with 12 added-parameter dicts}. distinct = distinct (shape, bits, solution) resp. dataset triples")
    ctx.exhaustive = True
    ctx.assumptions += [
        "'open pixel' in the isolated-cell rule means non-wall (an endpoint pixel counts as open both as subject and as neighbour); pixels outside the image are not open",
        "remove_isolated is applied before extension (after it no pixel is isolated)",
        "start == end: the one endpoint cell may carry either endpoint colour",
        "the empty index list is not a batch (there is nothing to stack)",
        "a violation that already shows with a subset of the options switched on is reported for that subset only",
        "grids above 3x3 / 4x2 are a fixed structured family",
    ]


def replay(d, res):
    if d["what"] == "process":
        check_process(d["r"], d["c"], d["bits"], d["sol"], res)
    else:
        check_dataset_group(d["n"], [(b, sol) for b, sol in d["group"]], res)
