"""C09 Maze objects are values: total structural equality, consistent hash, valid ends (DESIGN 5/C09)"""
import itertools

import numpy as np

from .. import refmodel as R

KINDS = ("L", "T", "S")


def build(spec):
    """spec = (kind, r, c, bits, start, end, solution(tuple of cells)|None, meta_flag)"""
    from maze_dataset.maze import LatticeMaze, SolvedMaze, TargetedLatticeMaze

    kind, r, c, bits, start, end, sol, meta = spec
    cl = R.graph_from_bits(r, c, bits)
    gm = None if not meta else dict(func_name="x", fully_connected=bool(meta == 1), visited_cells={(0, 0)})
    if kind == "L":
        return LatticeMaze(connection_list=cl, generation_meta=gm)
    if kind == "T":
        return TargetedLatticeMaze(connection_list=cl, start_pos=np.array(start), end_pos=np.array(end), generation_meta=gm)
    return SolvedMaze(connection_list=cl, solution=np.array(sol), generation_meta=gm)


def fingerprint(spec):
    kind, r, c, bits, start, end, sol, meta = spec
    if kind == "L":
        return (kind, r, c, bits)
    if kind == "T":
        return (kind, r, c, bits, tuple(start), tuple(end))
    return (kind, r, c, bits, tuple(sol[0]), tuple(sol[-1]), tuple(map(tuple, sol)))


def family(tier):
    F = []
    shapes = [(2, 2), (2, 3), (3, 3)] + ([] if tier == "quick" else [(3, 2), (1, 3)])
    for (r, c) in shapes:
        E = len(R.lattice_edges(r, c))
        tree = R.trees(r, c)[0]
        base_bits = [tree] + [tree ^ (1 << k) for k in range(min(E, 3 if tier == "quick" else E))]
        for bits in base_bits:
            for meta in (0, 1, 2):
                F.append(("L", r, c, bits, None, None, None, meta))
        adj = R.adjacency(R.graph_from_bits(r, c, tree))
        cells = R.cells(r, c)
        pairs = [(cells[0], cells[-1]), (cells[-1], cells[0]), (cells[0], cells[1]), (cells[0], cells[0]), (cells[1], cells[-1])]
        for bits in base_bits[:2]:
            for (s, e) in pairs:
                for meta in (0, 1):
                    F.append(("T", r, c, bits, s, e, None, meta))
        # solved: shortest paths + variants (one cell changed / different length / reversed), arbitrary stored solutions allowed
        sols = []
        for (s, e) in pairs:
            sp = R.all_shortest_paths(adj, s, e)
            sols += [tuple(p) for p in sp[:2]]
        more = []
        for p in sols:
            if len(p) >= 3:
                more.append(p[:-1])
                more.append(tuple(reversed(p)))
                q = list(p)
                q[1] = cells[(cells.index(q[1]) + 1) % len(cells)]
                more.append(tuple(q))
        sols = list(dict.fromkeys(sols + more))
        for bits in base_bits[:2]:
            for p in sols:
                for meta in (0, 2):
                    F.append(("S", r, c, bits, p[0], p[-1], p, meta))
    F += broadcast_family(tier)
    return list(dict.fromkeys(F))


def bits_of_graph(cl):
    r, c = cl.shape[1:]
    b = 0
    for k, (d, i, j) in enumerate(R.lattice_edges(r, c)):
        if cl[d, i, j]:
            b |= 1 << k
    return b


def broadcast_family(tier):
    """mazes of different shapes whose arrays are broadcasts / prefixes / transposes of one another: every graph of the degenerate
    grids 1x1, 1x2, 2x1, 1x3, 3x1 together with its row / column tilings on 2xc, 3xc, rx2, rx3, empty and full grids of every
    shape, each as plain, targeted and solved maze with the same start, end and solution (kept on row 0 / column 0)"""
    F = []
    members = []  # (r, c, bits, corridor axis or None)
    shapes = [(1, 1), (1, 2), (2, 1), (1, 3), (3, 1), (2, 2), (2, 3), (3, 2), (3, 3)] + ([] if tier == "quick" else [(1, 4), (4, 1), (2, 4), (4, 2)])
    for (r, c) in shapes:
        members.append((r, c, 0))
        members.append((r, c, (1 << len(R.lattice_edges(r, c))) - 1))
    for (r, c) in [(1, 2), (1, 3), (2, 1), (3, 1)] + ([] if tier == "quick" else [(1, 4), (4, 1)]):
        for bits, cl in R.all_graphs(r, c):
            members.append((r, c, bits))
            for k in (2, 3):
                tiled = np.tile(cl, (1, k, 1)) if r == 1 else np.tile(cl, (1, 1, k))
                members.append((tiled.shape[1], tiled.shape[2], bits_of_graph(tiled)))
    members = list(dict.fromkeys(members))
    for (r, c, bits) in members:
        F.append(("L", r, c, bits, None, None, None, 0))
        F.append(("T", r, c, bits, (0, 0), (0, 0), None, 0))
        F.append(("S", r, c, bits, (0, 0), (0, 0), ((0, 0),), 0))
        if c >= 2:
            F.append(("T", r, c, bits, (0, 0), (0, 1), None, 0))
            F.append(("S", r, c, bits, (0, 0), (0, 1), ((0, 0), (0, 1)), 0))
        if r >= 2:
            F.append(("T", r, c, bits, (0, 0), (1, 0), None, 0))
            F.append(("S", r, c, bits, (0, 0), (1, 0), ((0, 0), (1, 0)), 0))
    return F


def expected_equal(a, b):
    return fingerprint(a) == fingerprint(b)


def buildable_family(tier, res):
    """the family; a member with in-grid ends that the library refuses to construct is a violation, not a harness error"""
    out = []
    for sp in family(tier):
        try:
            build(sp)
            out.append(sp)
        except ValueError as e:
            res.fail(f"C09|endpoint|rejected|family|{sp[0]}", f"constructing {sp} (all coordinates inside the grid) raised ValueError: {str(e)[:150]}",
                     dict(kind="build", spec=sp))
    return out


def pair_task(t, res):
    F = buildable_family(t["tier"], res)
    objs = [build(s) for s in F]
    # a second, independently built copy of every object: equal-but-distinct instances
    objs2 = [build(s) for s in F]
    lo, hi = t["range"]
    for i in range(lo, min(hi, len(F))):
        a, sa = objs[i], F[i]
        for j in range(len(F)):
            sb = F[j]
            for b, same in ((objs[j], i == j), (objs2[j], False)):
                res.ev()
                want = expected_equal(sa, sb)
                cls_pair = f"{sa[0]}{sb[0]}"
                rel = "same_object" if same else ("equal_copy" if want else "different")
                try:
                    got = a == b
                    gne = a != b
                except Exception as e:
                    res.fail(f"C09|eq|raises|{cls_pair}|{rel}|{type(e).__name__}",
                             f"== / != raised {type(e).__name__}: {str(e)[:120]} for {sa} vs {sb}", dict(kind="pair", a=sa, b=sb, same=same))
                    continue
                if not isinstance(got, (bool, np.bool_)) or bool(got) != want or bool(gne) == bool(got):
                    res.fail(f"C09|eq|wrong|{cls_pair}|{rel}",
                             f"(a==b)={got!r} (a!=b)={gne!r}, expected equal={want} for {sa} vs {sb}", dict(kind="pair", a=sa, b=sb, same=same))
                    continue
                if want:
                    try:
                        if hash(a) != hash(b):
                            res.fail(f"C09|hash|unequal|{cls_pair}", f"equal mazes with different hashes: {sa} vs {sb}",
                                     dict(kind="pair", a=sa, b=sb, same=same))
                    except Exception as e:
                        res.fail(f"C09|hash|raises|{sa[0]}|{type(e).__name__}", f"hash raised {type(e).__name__}: {str(e)[:120]} for {sa}",
                                 dict(kind="pair", a=sa, b=sb, same=same))
                if not same and want != (i == j):
                    pass
                if rel != "same_object":
                    res.nontrivial((fingerprint(sa), fingerprint(sb)))
                    if want or (i + j) % 97 == 0:
                        res.sample(dict(a=sa, b=sb, relation=rel, eq=bool(got)), cap=3)


def replay_pair(d, res):
    sa, sb = tuple(_detuple(d["a"])), tuple(_detuple(d["b"]))
    a = build(sa)
    b = a if d["same"] else build(sb)
    want = expected_equal(sa, sb)
    cls_pair = f"{sa[0]}{sb[0]}"
    rel = "same_object" if d["same"] else ("equal_copy" if want else "different")
    try:
        got = a == b
        gne = a != b
    except Exception as e:
        res.fail(f"C09|eq|raises|{cls_pair}|{rel}|{type(e).__name__}", f"== raised {e!r}", d)
        return
    if bool(got) != want or bool(gne) == bool(got):
        res.fail(f"C09|eq|wrong|{cls_pair}|{rel}", f"(a==b)={got!r}, expected {want}", d)
        return
    if want:
        try:
            if hash(a) != hash(b):
                res.fail(f"C09|hash|unequal|{cls_pair}", "hash differs", d)
        except Exception as e:
            res.fail(f"C09|hash|raises|{sa[0]}|{type(e).__name__}", f"hash raised {e!r}", d)


def _detuple(x):
    if isinstance(x, list):
        return tuple(_detuple(y) for y in x)
    return x


def sets_and_datasets(tier, res):
    from maze_dataset import MazeDataset, MazeDatasetConfig

    F = buildable_family(tier, res)
    objs = [build(s) for s in F] + [build(s) for s in F]
    fps = [fingerprint(s) for s in F] * 2
    res.ev()
    try:
        n_set = len(set(objs))
        n_dict = len(dict.fromkeys(objs))
        want = len(set(fps))
        if n_set != want or n_dict != want:
            res.fail("C09|set|size", f"set(F) has {n_set}, dict.fromkeys {n_dict} members, expected {want} distinct values", dict(kind="sets"))
        # first occurrences kept, in order
        firsts = [fingerprint(F[i % len(F)]) for i, o in enumerate(objs) if fps.index(fps[i]) == i]
        got_order = [fingerprint(F[objs.index(o) % len(F)]) for o in dict.fromkeys(objs)]
        if n_dict == want and got_order != firsts:
            res.fail("C09|set|order", "dict.fromkeys does not keep first occurrences in order", dict(kind="sets"))
    except Exception as e:
        res.fail(f"C09|set|raises|{type(e).__name__}", f"set()/dict.fromkeys over mazes raised {type(e).__name__}: {str(e)[:150]}", dict(kind="sets"))
    # datasets: equal iff configs and maze lists are equal
    solved, seen_fp = [], set()
    for s in F:
        if s[0] == "S" and (s[1], s[2]) == (3, 3) and fingerprint(s) not in seen_fp:
            seen_fp.add(fingerprint(s))
            solved.append(s)
    solved = solved[:4]

    def cfg(name="t", n=2, seed=42):
        return MazeDatasetConfig(name=name, grid_n=3, n_mazes=n, seed=seed)

    variants = []
    for cname in ("t", "u"):
        for lst in ([0, 1], [0, 1], [1, 0], [0], [0, 2]):
            variants.append((cname, tuple(lst)))
    dss = [MazeDataset(cfg(name=cn, n=len(l)), [build(solved[k]) for k in l]) for cn, l in variants]
    for (va, da), (vb, db) in itertools.product(zip(variants, dss), repeat=2):
        res.ev()
        want = va == vb
        try:
            got = da == db
            gne = da != db
        except Exception as e:
            res.fail(f"C09|dataset_eq|raises|{type(e).__name__}", f"dataset == raised {type(e).__name__}: {str(e)[:150]} for {va} vs {vb}",
                     dict(kind="datasets"))
            continue
        if bool(got) != want or bool(gne) == bool(got):
            res.fail("C09|dataset_eq|wrong", f"datasets {va} vs {vb}: == gave {got!r}, != gave {gne!r}, expected equal={want}", dict(kind="datasets"))
        res.nontrivial(("ds", va, vb))


ENDPOINT_SHAPES = [(2, 2), (1, 2), (2, 1), (1, 4), (4, 1), (2, 3), (3, 2), (2, 4), (4, 2), (3, 3), (2, 5), (5, 2)]


def endpoint_task(t, res):
    """coordinate box: every (start, end) on 2x2, one endpoint varied at a time on 2x3 / 3x3"""
    from maze_dataset.maze import LatticeMaze, SolvedMaze, TargetedLatticeMaze

    for (r, c) in ENDPOINT_SHAPES:
        cl = R.graph_from_bits(r, c, R.trees(r, c)[0])
        hi = max(r, c) + 2  # the box reaches beyond BOTH dimensions on both axes (oblong grids: a bound taken from the wrong axis)
        box = [(i, j) for i in range(-2, hi) for j in range(-2, hi)]
        inside = lambda p: 0 <= p[0] < r and 0 <= p[1] < c  # noqa: E731
        if r * c <= 4:
            combos = list(itertools.product(box, box))
        else:
            combos = [(p, (0, 0)) for p in box] + [((0, 0), p) for p in box] + [((r - 1, c - 1), p) for p in box] + [(p, (r - 1, c - 1)) for p in box]
        ctors = {
            "Targeted": lambda s, e: TargetedLatticeMaze(connection_list=cl, start_pos=s, end_pos=e),
            "Targeted.from_lattice_maze": lambda s, e: TargetedLatticeMaze.from_lattice_maze(LatticeMaze(connection_list=cl), s, e),
            "Targeted(np)": lambda s, e: TargetedLatticeMaze(connection_list=cl, start_pos=np.array(s), end_pos=np.array(e)),
            "Solved": lambda s, e: SolvedMaze(connection_list=cl, solution=np.array([s, e])),
            "Solved.from_lattice_maze": lambda s, e: SolvedMaze.from_lattice_maze(LatticeMaze(connection_list=cl), [s, (0, 0), e]),
        }
        for (s, e) in combos:
            ok_expected = inside(s) and inside(e)
            for cname, ctor in ctors.items():
                res.ev()
                which = ("start" if not inside(s) else "") + ("end" if not inside(e) else "")
                cls = []
                for p in (s, e):
                    if not inside(p):
                        cls.append("negative" if min(p) < 0 else "toolarge")
                klass = "+".join(sorted(set(cls)))
                rd = dict(kind="endpoint", shape=[r, c], start=s, end=e, ctor=cname)
                try:
                    m = ctor(s, e)
                    if not ok_expected:
                        res.fail(f"C09|endpoint|accepted|{cname}|{which}|{klass}",
                                 f"{cname} on {r}x{c} accepted out-of-grid start={s} end={e} (start_pos={m.start_pos.tolist()}, end_pos={m.end_pos.tolist()})", rd)
                    else:
                        if tuple(m.start_pos.tolist()) != s or tuple(m.end_pos.tolist()) != e:
                            res.fail(f"C09|endpoint|stored|{cname}", f"{cname}: stored ends differ from given {s},{e}", rd)
                except ValueError:
                    if ok_expected:
                        res.fail(f"C09|endpoint|rejected|{cname}", f"{cname} on {r}x{c} rejected in-grid start={s} end={e}", rd)
                except Exception as ex:
                    res.fail(f"C09|endpoint|wrongexc|{cname}|{which}|{klass}|{type(ex).__name__}",
                             f"{cname} on {r}x{c} start={s} end={e} raised {type(ex).__name__} instead of ValueError/accepting", rd)
                res.nontrivial(("ep", r, c, s, e, cname))
                if not ok_expected:
                    res.sample(dict(ctor=cname, shape=[r, c], start=s, end=e, expected="ValueError"), cap=2)


def alias_task(t, res):
    """the ends a maze holds are its own: arrays handed to a constructor and overwritten by the caller afterwards (a reused scratch
    buffer) must not move the maze's start / end / solution, let alone out of the grid"""
    from maze_dataset.maze import LatticeMaze, SolvedMaze, TargetedLatticeMaze

    for (r, c) in [(2, 2), (2, 3), (3, 3)]:
        cl = R.graph_from_bits(r, c, R.trees(r, c)[0])
        cells = R.cells(r, c)
        ctors = {
            "Targeted(np)": lambda s, e, p: TargetedLatticeMaze(connection_list=cl.copy(), start_pos=s, end_pos=e),
            "Targeted.from_lattice_maze(np)": lambda s, e, p: TargetedLatticeMaze.from_lattice_maze(LatticeMaze(connection_list=cl.copy()), s, e),
            "Solved(np)": lambda s, e, p: SolvedMaze(connection_list=cl.copy(), solution=p),
            "Solved.from_lattice_maze(np)": lambda s, e, p: SolvedMaze.from_lattice_maze(LatticeMaze(connection_list=cl.copy()), p),
            "Solved.from_targeted_lattice_maze": lambda s, e, p: SolvedMaze.from_targeted_lattice_maze(
                TargetedLatticeMaze(connection_list=cl.copy(), start_pos=s, end_pos=e)),
        }
        for s0 in cells:
            for e0 in (cells[-1], cells[0], s0):
                for cname, ctor in ctors.items():
                    res.ev()
                    s, e = np.array(s0), np.array(e0)
                    path = np.array(R.all_shortest_paths(R.adjacency(cl), s0, e0)[0])
                    rd = dict(kind="alias", shape=[r, c], start=s0, end=e0, ctor=cname)
                    try:
                        m = ctor(s, e, path)
                        first = (m.start_pos.tolist(), m.end_pos.tolist(), m.solution.tolist() if hasattr(m, "solution") else None)
                        twin = ctor(np.array(s0), np.array(e0), path.copy())
                        s[:] = r + 3
                        e[:] = -2
                        path[:] = r + 5
                        now = (m.start_pos.tolist(), m.end_pos.tolist(), m.solution.tolist() if hasattr(m, "solution") else None)
                        if now != first:
                            res.fail(f"C09|endpoint|aliased_to_caller_array|{cname}", f"{cname} on {r}x{c}: after the caller overwrote the arrays it had passed in, the maze holds "
                                     f"start/end/solution {now} (was {first}): coordinates outside the grid", rd)
                        elif not (m == twin) or hash(m) != hash(twin):
                            res.fail(f"C09|endpoint|aliased_to_caller_array|{cname}|eq", f"{cname}: maze no longer equals its equal copy after the caller reused its arrays", rd)
                    except Exception as ex:  # noqa: BLE001
                        res.fail(f"C09|endpoint|alias_probe_raises|{cname}|{type(ex).__name__}", f"{cname} on {r}x{c} start={s0} end={e0}: {type(ex).__name__}: {str(ex)[:120]}", rd)
                    res.nontrivial(("alias", r, c, s0, e0, cname))


def replay_endpoint(d, res):
    from maze_dataset.maze import LatticeMaze, SolvedMaze, TargetedLatticeMaze

    r, c = d["shape"]
    s, e = tuple(d["start"]), tuple(d["end"])
    cl = R.graph_from_bits(r, c, R.trees(r, c)[0])
    cname = d["ctor"]
    inside = lambda p: 0 <= p[0] < r and 0 <= p[1] < c  # noqa: E731
    ctor = {
        "Targeted": lambda: TargetedLatticeMaze(connection_list=cl, start_pos=s, end_pos=e),
        "Targeted.from_lattice_maze": lambda: TargetedLatticeMaze.from_lattice_maze(LatticeMaze(connection_list=cl), s, e),
        "Targeted(np)": lambda: TargetedLatticeMaze(connection_list=cl, start_pos=np.array(s), end_pos=np.array(e)),
        "Solved": lambda: SolvedMaze(connection_list=cl, solution=np.array([s, e])),
        "Solved.from_lattice_maze": lambda: SolvedMaze.from_lattice_maze(LatticeMaze(connection_list=cl), [s, (0, 0), e]),
    }[cname]
    ok = inside(s) and inside(e)
    try:
        ctor()
        if not ok:
            res.fail(f"C09|endpoint|accepted|{cname}|replay", f"accepted out-of-grid {s},{e}", d)
    except ValueError:
        if ok:
            res.fail(f"C09|endpoint|rejected|{cname}", "rejected in-grid", d)
    except Exception as ex:
        res.fail(f"C09|endpoint|wrongexc|{cname}|replay|{type(ex).__name__}", f"raised {ex!r}", d)


def other_task(t, res):
    if t["what"] == "alias":
        alias_task(t, res)
    elif t["what"] == "sets":
        sets_and_datasets(t["tier"], res)
    else:
        endpoint_task(t, res)


def run(ctx):
    F = family(ctx.tier)
    n = len(F)
    step = max(1, n // 32)
    tasks = [dict(tier=ctx.tier, range=(i, min(n, i + step))) for i in range(0, n, step)]
    ctx.pmap("mzcheck.checks.c09", "pair_task", tasks)
    ctx.pmap("mzcheck.checks.c09", "other_task", [dict(tier=ctx.tier, what="sets"), dict(tier=ctx.tier, what="endpoints"), dict(tier=ctx.tier, what="alias")])
    ctx.pmap("mzcheck.checks.c09", "live_history_task", [dict(si=i, depth=3 if ctx.quick else 4) for i in range(len(_hist_specs()))])
    for hs in (("7",) if ctx.quick else ("1", "4", "7", "4242")):  # slices again in interpreters with other hash seeds (hash() of a maze must not decide equality or set membership)
        ctx.pmap("mzcheck.checks.c09", "pair_task", tasks[::8], hashseed=hs)
        ctx.pmap("mzcheck.checks.c09", "other_task", [dict(tier=ctx.tier, what="sets"), dict(tier=ctx.tier, what="endpoints")], hashseed=hs)
    ctx.coverage.update(family_size=n, ordered_pairs=2 * n * n,
                        live_histories=dict(ops=HIST_OPS, depth=3 if ctx.quick else 4, mazes=len(_hist_specs()), histories=ctx.res.counters.get("live_histories", 0)))
    ctx.rule = ("all ordered pairs over a family of mazes (3 kinds x shapes x one-bit / one-endpoint / one-solution-cell variants x metadata variants), "
                "each against itself, an equal copy and every other member; the -2..size+1 coordinate box for endpoints; "
                "distinct = distinct (fingerprint, fingerprint) pairs of different objects")
    ctx.exhaustive = True


def replay(d, res):
    if d["kind"] == "alias":
        sub = type(res)()
        alias_task({}, sub)
        for f in sub.fails:
            if f["replay"].get("ctor") == d["ctor"]:
                res.fail(f["key"], f["what"], f["replay"])
        return
    if d["kind"] == "live":
        run_live_history(d["si"], list(d["seq"]), res, only_last=True)
        return
    if d["kind"] == "build":
        buildable_family("thorough", res)
        return
    if d["kind"] == "pair":
        replay_pair(d, res)
    elif d["kind"] == "endpoint":
        replay_endpoint(d, res)
    elif d["kind"] == "sets" or d["kind"] == "datasets":
        sets_and_datasets("quick", res)


# ------------------------------------------------------------------ histories on one live maze object
# A maze holds mutable arrays. Equality and hash speak about the structure it has NOW: every sequence (up to a depth) of observations
# (hash, == against a fresh maze of the same current structure, membership in a set built now) and in-place changes (flip one
# connection bit and back, move the end of a targeted maze and back) on ONE live object is compared with a freshly built maze.
HIST_OPS = ["hash", "eq_fresh", "ne_other", "in_set", "flip_bit0", "flip_bit_last", "move_end", "move_end_back"]


def _hist_specs():
    t33 = R.trees(3, 3)[40]
    t23 = R.trees(2, 3)[5]
    return [("L", 3, 3, t33, None, None, None, 0), ("T", 3, 3, t33, (0, 0), (2, 2), None, 0), ("L", 2, 3, t23, None, None, None, 0),
            ("S", 3, 3, t33, None, None, tuple(R.all_shortest_paths(R.adjacency(R.graph_from_bits(3, 3, t33)), (0, 0), (2, 1))[0]), 0)]


def run_live_history(si, seq, res, only_last=False):
    spec = list(_hist_specs()[si])
    kind, r, c = spec[0], spec[1], spec[2]
    m = build(tuple(spec))
    E = len(R.lattice_edges(r, c))
    for k, op in enumerate(seq):
        cur = tuple(spec)
        if op in ("flip_bit0", "flip_bit_last"):
            d, i, j = R.lattice_edges(r, c)[0 if op == "flip_bit0" else E - 1]
            m.connection_list[d, i, j] = not m.connection_list[d, i, j]
            spec[3] ^= 1 << (0 if op == "flip_bit0" else E - 1)
            continue
        if op in ("move_end", "move_end_back"):
            if kind != "T":
                continue
            new = (1, 1) if op == "move_end" else (2, 2)
            m.end_pos[:] = new
            spec[5] = new
            continue
        if only_last and k != len(seq) - 1:
            try:
                hash(m)
            except Exception:  # noqa: BLE001
                pass
            continue
        res.ev()
        fresh = build(cur)
        changed = [o for o in seq[:k] if o.startswith(("flip", "move"))]
        observed_before = any(not o.startswith(("flip", "move")) for o in seq[:max([i for i, o in enumerate(seq[:k]) if o.startswith(("flip", "move"))], default=0)])
        tag = f"{kind}|{op}|after_{'in_place_change' if changed else 'no_change'}|{'observed_before_change' if observed_before else 'not_observed_before'}"
        rd = dict(kind="live", si=si, seq=list(seq[:k + 1]))
        what = f"one live {kind} maze {r}x{c}, history {list(seq[:k + 1])} (structure now {cur})"
        try:
            if op == "hash":
                ok = hash(m) == hash(fresh)
                msg = "hash differs from the hash of a fresh maze with the same structure"
            elif op == "eq_fresh":
                ok = (m == fresh) is True and (fresh == m) is True and (m != fresh) is False
                msg = "does not equal a fresh maze with the same structure"
            elif op == "ne_other":
                other = list(cur)
                other[3] ^= 1 << (E // 2)
                ok = (m == build(tuple(other))) is False
                msg = "equals a maze that differs in one connection"
            else:
                ok = (m in {fresh}) and (fresh in {m}) and len({m, fresh}) == 1
                msg = "set membership / de-duplication against a fresh maze with the same structure fails"
        except Exception as e:  # noqa: BLE001
            ok, msg = False, f"raised {type(e).__name__}: {str(e)[:120]}"
        if not ok:
            res.fail(f"C09|live_history|{tag}", f"{what}: {msg}", rd)
            return False
    return True


def live_history_task(t, res):
    n = 0
    for d in range(1, t["depth"] + 1):
        for seq in itertools.product(HIST_OPS, repeat=d):
            if seq[-1].startswith(("flip", "move")) or not any(o.startswith(("flip", "move")) for o in seq):
                continue
            if run_live_history(t["si"], seq, res):
                res.nontrivial(("live", t["si"], seq))
            n += 1
    res.count("live_histories", n)
    res.sample(dict(layer="live maze history", spec=list(map(str, _hist_specs()[t["si"]])), example=["hash", "flip_bit0", "hash", "in_set"]), cap=1)
