"""Shared exploration of the generators' execution trees (C01, C12, C19).

Every execution is a real call of GENERATORS_MAP[name](shape, **kw) under the choice oracle."""

from __future__ import annotations

import itertools
import time

import numpy as np

from .. import choice, explore, refmodel as R
from ..choice import CH, HI, owned_rng
from ..runner import digest


# ------------------------------------------------------------------ argument domains
def corners_centre(r, c):
    pts = [(0, 0), (0, c - 1), (r - 1, 0), (r - 1, c - 1), (r // 2, c // 2)]
    out = []
    for p in pts:
        if p not in out:
            out.append(p)
    return out


def dfs_kw_domain(r, c, small=False):
    n = r * c
    acc = [None, 0, 1, 2, n // 2, n - 1, n, n + 1, 0.0, 0.5, 1.0]
    depth = [None, 0, 1, 2, 3, 6, 0.0, 0.5, 1.0]
    if small:
        acc = [None, 1, n // 2, n - 1, 0.5]
        depth = [None, 1, 3, 0.5]
    starts = [None] + corners_centre(r, c)
    for a, d, f, s in itertools.product(acc, depth, [True, False], starts):
        kw = {}
        if a is not None:
            kw["accessible_cells"] = a
        if d is not None:
            kw["max_tree_depth"] = d
        if not f:
            kw["do_forks"] = False
        if s is not None:
            kw["start_coord"] = s
        yield kw


def effective_rand_family(shape):
    """DESIGN 4.3: all vectors over in-grid edge bits x boundary bits in {all open, all closed}"""
    shape = tuple(shape)
    if len(shape) != 3 or shape[0] != 2:
        return choice._rand_family_default(shape)
    _, r, c = shape
    if 2 * r * c <= choice.RAND_FULL_MAX:
        return choice._rand_family_default(shape)
    edges = R.lattice_edges(r, c)
    k = len(edges)
    fam = []
    if k <= 12:
        for boundary in (0.0, HI):
            for bits in range(1 << k):
                a = np.full(shape, boundary)
                for t, (d, i, j) in enumerate(edges):
                    a[d, i, j] = 0.0 if (bits >> t) & 1 else HI
                fam.append(a)
        return fam
    # bounded family on larger grids
    for boundary in (0.0, HI):
        base_sets = [0, (1 << k) - 1] + [1 << t for t in range(k)] + [((1 << k) - 1) ^ (1 << t) for t in range(k)]
        base_sets.append(sum(1 << t for t in range(0, k, 2)))
        for bits in base_sets:
            a = np.full(shape, boundary)
            for t, (d, i, j) in enumerate(edges):
                a[d, i, j] = 0.0 if (bits >> t) & 1 else HI
            fam.append(a)
    return fam


def tiny_rand_family(shape):
    shape = tuple(shape)
    k = int(np.prod(shape))
    alt = np.array([HI if i % 2 else 0.0 for i in range(k)]).reshape(shape)
    return [np.zeros(shape), np.full(shape, HI), alt]


RAND_POLICIES = {"effective": effective_rand_family, "tiny": tiny_rand_family,
                 "default": choice._rand_family_default}


# ------------------------------------------------------------------ tasks
def tasks_for(tier: str, which: str):
    """list of exploration tasks. which in {'C01','C12'} only changes a few sizes"""
    quick = tier == "quick"
    T = []
    shapes_all = [(r, c) for r in range(1, 5) for c in range(1, 5)]
    # 1. gen_dfs default args, every execution
    for sh in shapes_all:
        T.append(dict(gen="gen_dfs", shape=sh, kws=[{}], mode="stateless"))
    if not quick:
        for sh in [(4, 5), (5, 4)]:
            T.append(dict(gen="gen_dfs", shape=sh, kws=[{}], mode="stateless"))
    # 2. gen_dfs kwargs cross product
    for sh in [(2, 2), (2, 3), (3, 2), (3, 3), (1, 3), (3, 1)]:
        kws = list(dfs_kw_domain(*sh))
        for i in range(0, len(kws), 330):
            T.append(dict(gen="gen_dfs", shape=sh, kws=kws[i:i + 330], mode="stateless"))
    for sh in [(3, 4), (4, 3)]:
        kws = list(dfs_kw_domain(*sh, small=quick))
        for i in range(0, len(kws), 40 if quick else 60):
            T.append(dict(gen="gen_dfs", shape=sh, kws=kws[i:i + (40 if quick else 60)], mode="stateless"))
    # 3. randomized stack (gen_prim alias and gen_dfs(randomized_stack=True)): explicit-state
    prim_shapes = [(1, 1), (1, 2), (2, 1), (2, 2), (2, 3), (3, 2), (1, 4)] + ([] if quick else [(3, 3), (2, 4)])
    for sh in prim_shapes:
        T.append(dict(gen="gen_prim", shape=sh, kws=[{}], mode="state"))
        T.append(dict(gen="gen_dfs", shape=sh, kws=[dict(randomized_stack=True)], mode="state"))
    for sh in [(2, 2), (2, 3), (3, 2)]:
        n = sh[0] * sh[1]
        kws = [dict(accessible_cells=a, **extra) for a in (2, n - 1, 0.5)
               for extra in ({}, dict(max_tree_depth=2), dict(do_forks=False), dict(start_coord=(0, 0)))]
        for kw in kws:
            T.append(dict(gen="gen_prim", shape=sh, kws=[kw], mode="state"))
    if not quick:
        T.append(dict(gen="gen_prim", shape=(3, 3), kws=[dict(start_coord=(0, 0))], mode="state"))
    T.append(dict(gen="gen_prim", shape=(3, 3), kws=[dict(start_coord=(1, 1), accessible_cells=5)], mode="state"))
    # 4. wilson: explicit-state, complete graph
    wil = [(1, 1), (1, 2), (2, 1), (1, 3), (3, 1), (2, 2), (2, 3), (3, 2)]
    if which == "C01" or not quick:
        wil += [(3, 3)]
    if not quick:
        wil += [(2, 4), (4, 2), (1, 5)]
    for sh in wil:
        T.append(dict(gen="gen_wilson", shape=sh, kws=[{}], mode="state"))
    # 5. percolation
    for sh in [(1, 1), (1, 2), (2, 1), (1, 3), (2, 2), (2, 3), (3, 2), (3, 3)]:
        starts = [None] + corners_centre(*sh)[:2 if quick else 5]
        for p, pol in ((0.0, "tiny"), (1.0, "tiny"), (0.4, "effective"), (0.7, "tiny")):
            kws = [dict(p=p, **({} if s is None else dict(start_coord=s))) for s in starts]
            if sh == (3, 3) and pol == "effective":
                for kw in kws:
                    T.append(dict(gen="gen_percolation", shape=sh, kws=[kw], mode="stateless", rand=pol))
            else:
                T.append(dict(gen="gen_percolation", shape=sh, kws=kws, mode="stateless", rand=pol))
    for sh in [(3, 4), (4, 4), (5, 5)]:
        T.append(dict(gen="gen_percolation", shape=sh, kws=[dict(p=p) for p in (0.0, 0.4, 1.0)],
                      mode="stateless", rand="default"))
    # 6. dfs_percolation: dfs part exhaustive x rand family
    for sh in [(2, 2), (2, 3), (3, 2)]:
        for p, pol in ((0.0, "tiny"), (1.0, "tiny"), (0.4, "effective")):
            n = sh[0] * sh[1]
            kws = [dict(p=p), dict(p=p, start_coord=(0, 0)), dict(p=p, accessible_cells=2),
                   dict(p=p, accessible_cells=n - 1, max_tree_depth=2), dict(p=p, max_tree_depth=1, start_coord=(sh[0] - 1, sh[1] - 1))]
            if pol == "effective":
                for kw in kws:
                    T.append(dict(gen="gen_dfs_percolation", shape=sh, kws=[kw], mode="stateless", rand=pol))
            else:
                T.append(dict(gen="gen_dfs_percolation", shape=sh, kws=kws, mode="stateless", rand=pol))
    for p, pol in ((0.0, "tiny"), (1.0, "tiny"), (0.4, "default" if quick else "effective")):
        kws = [dict(p=p), dict(p=p, accessible_cells=4, start_coord=(1, 1))]
        if pol == "effective":
            for kw in kws:
                T.append(dict(gen="gen_dfs_percolation", shape=(3, 3), kws=[kw], mode="stateless", rand=pol))
        else:
            T.append(dict(gen="gen_dfs_percolation", shape=(3, 3), kws=kws, mode="stateless", rand=pol))
    # 7. one-cell-wide grids with a side beyond 127 / 255 cells (coordinates outside the narrow integer types): every execution of gen_dfs
    #    (the walk is forced once the start cell and the first direction are chosen), percolation at p in {0, 1}
    for n in ((129, 130, 200) if quick else (129, 130, 200, 257, 300)):
        for sh in ((1, n), (n, 1)):
            T.append(dict(gen="gen_dfs", shape=sh, kws=[{}], mode="stateless"))
            T.append(dict(gen="gen_percolation", shape=sh, kws=[dict(p=0.0), dict(p=1.0)], mode="stateless", rand="tiny"))
    T.append(dict(gen="gen_dfs_percolation", shape=(1, 130), kws=[dict(p=0.0)], mode="stateless", rand="tiny"))
    for t in T:
        t["which"] = which
        t["tier"] = tier
    return T


# ------------------------------------------------------------------ oracles
def is_default_tree_claim(gen, kw):
    return gen in ("gen_dfs", "gen_wilson", "gen_prim") and not kw  # gen_prim is the depth-first generator with a randomized stack


def oracle_c01(gen, shape, kw, m):
    """returns list of (key_suffix, message)"""
    r, c = shape
    bad = []
    cl = getattr(m, "connection_list", None)
    if not isinstance(cl, np.ndarray) or cl.dtype != np.bool_ or cl.shape != (2, r, c):
        return [("shape", f"connection_list is not bool[2,{r},{c}]: {getattr(cl, 'dtype', None)} {getattr(cl, 'shape', None)}")]
    if not R.boundary_clean(cl):
        bad.append(("boundary", "a connection leaves the grid (last row of [0] / last col of [1] set)"))
    adj = R.adjacency(cl)
    if is_default_tree_claim(gen, kw):
        if not R.is_connected(adj):
            bad.append(("tree", "default-args maze is not connected"))
        if int(cl.sum()) != r * c - 1 or R.n_edges(adj) != r * c - 1:
            bad.append(("tree", f"default-args maze has {int(cl.sum())} set bits / {R.n_edges(adj)} edges, expected {r * c - 1}"))
        if not R.is_forest(adj):
            bad.append(("tree", "default-args maze has a cycle"))
    if gen == "gen_percolation":
        p = kw.get("p", 0.4)
        if p == 0.0 and cl.any():
            bad.append(("p0", "percolation with p=0 has connections"))
        if p == 1.0 and R.n_edges(adj) != len(R.lattice_edges(r, c)):
            bad.append(("p1", "percolation with p=1 misses lattice edges"))
    return bad


def _cells_set(v):
    return {tuple(int(x) for x in t) for t in v}


def oracle_c12(gen, shape, kw, m):
    r, c = shape
    bad = []
    cl = m.connection_list
    meta = m.generation_meta
    if cl.shape != (2, r, c):
        return []
    adj = R.adjacency(cl)
    if meta is None:
        return [("meta", "generator returned a maze without generation_meta")]
    flag = meta.get("fully_connected", None)
    vis = meta.get("visited_cells", None)
    start = meta.get("start_coord", None)
    connected = R.is_connected(adj)
    if flag and not connected:
        bad.append(("flag", "fully_connected=True but the graph is not connected"))
    if not flag and vis is None:
        bad.append(("novisited", "not flagged fully connected and no visited_cells recorded"))
    if vis is not None:
        visset = _cells_set(vis)
        if start is None:
            bad.append(("nostart", "visited_cells recorded without start_coord"))
        else:
            comp = R.component(adj, tuple(int(x) for x in start))
            if visset != comp:
                bad.append(("visited", f"visited_cells {sorted(visset)} != cells reachable from start {tuple(int(x) for x in start)}: {sorted(comp)}"))
    if meta.get("func_name") == "gen_dfs" and gen in ("gen_dfs", "gen_prim"):
        if bool(flag) != connected:
            bad.append(("dfsflag", f"gen_dfs fully_connected={flag} but connected={connected}"))
        if vis is not None:
            visset = _cells_set(vis)
            es = R.edge_set(cl)
            if any(not (set(e) <= visset) for e in es):
                bad.append(("dfstree", "an edge touches a non-visited cell"))
            if len(es) != len(visset) - 1:
                bad.append(("dfstree", f"{len(es)} edges over {len(visset)} visited cells: not a tree"))
            # the REQUESTED number, from the arguments of this call (count, or fraction of the grid) - not from what the metadata says
            a = kw.get("accessible_cells")
            n_acc = r * c if a is None else (int(a * r * c) if isinstance(a, float) else int(a))
            if n_acc is not None:
                if len(visset) > max(int(n_acc), 1):
                    bad.append(("dfscount", f"{len(visset)} visited cells > requested {n_acc}"))
                if ("max_tree_depth" not in kw) and kw.get("do_forks", True):
                    want = max(1, min(int(n_acc), r * c))
                    if len(visset) != want:
                        bad.append(("dfscount", f"{len(visset)} visited cells, expected exactly {want} (no depth/fork limit)"))
            if not kw.get("do_forks", True):
                if any(len(adj[v]) > 2 for v in adj):
                    bad.append(("corridor", "do_forks=False but a cell has degree > 2"))
    return bad


def oracle_random_path(m, shape, res, key_prefix, replay_base):
    """every answer of maze.generate_random_path(): endpoints mutually reachable (or documented error)"""
    r, c = shape
    adj = R.adjacency(m.connection_list)

    def on_exec(ex):
        res.ev()
        if ex.exc is not None:
            ok = False
            if isinstance(ex.exc, AssertionError) and (r < 2 or c < 2):
                ok = True
            elif isinstance(ex.exc, ValueError):
                # documented: component with < 2 cells / metadata without visited cells
                try:
                    comp = m.get_connected_component()
                    ok = len(comp) < 2
                except ValueError:
                    ok = True
                if "could not be found" in str(ex.exc.args[0] if ex.exc.args else ""):
                    ok = False
            if not ok:
                res.fail(f"{key_prefix}|random_path|{type(ex.exc).__name__}",
                         f"generate_random_path raised {type(ex.exc).__name__}: {str(ex.exc)[:300]}",
                         dict(replay_base, stage="random_path", path_answers=ex.answers))
            return
        p = [tuple(int(x) for x in t) for t in ex.out]
        if not R.path_valid(adj, p):
            res.fail(f"{key_prefix}|random_path|invalid", f"random path {p} does not follow connections",
                     dict(replay_base, stage="random_path", path_answers=ex.answers))

    # history: the same walls have been seen before with OTHER metadata (none at all / flagged fully connected / another start's
    # component) - what such a twin answered must not be handed to this maze
    try:
        from maze_dataset.maze import LatticeMaze

        twins = [LatticeMaze(connection_list=m.connection_list.copy()),
                 LatticeMaze(connection_list=m.connection_list.copy(), generation_meta=dict(fully_connected=True))]
        for comp in R.components(adj):
            twins.append(LatticeMaze(connection_list=m.connection_list.copy(),
                                     generation_meta=dict(fully_connected=False, start_coord=min(comp), visited_cells=set(comp))))
        for tw in twins[:6]:
            tw.get_connected_component()
    except Exception:  # noqa: BLE001 - the twins are only history
        pass
    with owned_rng():
        st = explore.explore_stateless(lambda: m.generate_random_path(), on_exec)
    return st["executions"]


# ------------------------------------------------------------------ the worker
def _call(gen, shape, kw):
    from maze_dataset.generation.generators import GENERATORS_MAP

    return GENERATORS_MAP[gen](np.array(shape), **kw)


def explore_task(task, res):
    gen, shape, which = task["gen"], tuple(task["shape"]), task["which"]
    choice.RAND_FAMILY[0] = RAND_POLICIES[task.get("rand", "default")]
    oracle = oracle_c01 if which == "C01" else oracle_c12
    deadline = time.time() + (120 if task["tier"] == "quick" else 1500)
    seen_path_inputs = set()
    t_start = time.time()
    unowned0 = CH.unowned_draws
    for kw in task["kws"]:
        kwkey = ",".join(f"{k}={v}" for k, v in sorted(kw.items()))
        base = dict(gen=gen, shape=list(shape), kw=kw, rand=task.get("rand", "default"))
        keyp = f"{which}|{gen}|{shape[0]}x{shape[1]}|{kwkey}"

        def judge(ex):
            res.ev()
            if ex.exc is not None:
                res.count("raised")
                claim = is_default_tree_claim(gen, kw) or (gen == "gen_percolation" and set(kw) <= {"p"})
                if claim and which == "C01":
                    res.fail(f"{keyp}|exception|{type(ex.exc).__name__}",
                             f"{gen}{shape} {kw} raised {type(ex.exc).__name__}: {str(ex.exc)[:300]}",
                             dict(base, answers=ex.answers))
                return
            m = ex.out
            for suffix, msg in oracle(gen, shape, kw, m):
                res.fail(f"{keyp}|{suffix}", f"{gen}{shape} {kw}: {msg}; connection_list bits={R.bits_of(m.connection_list) if m.connection_list.shape == (2,) + shape else None}",
                         dict(base, answers=ex.answers))
            if m.connection_list.shape == (2,) + shape:
                res.nontrivial((shape, R.bits_of(m.connection_list), kwkey if which == "C12" else gen))
                res.add("outputs", (gen, shape, R.bits_of(m.connection_list)))
            if which == "C12" and shape[0] * shape[1] <= (12 if task["tier"] == "quick" else 16):
                meta = m.generation_meta or {}
                sig = (R.bits_of(m.connection_list), bool(meta.get("fully_connected")),
                       tuple(sorted(_cells_set(meta["visited_cells"]))) if meta.get("visited_cells") is not None else None)
                if (shape, sig) not in seen_path_inputs:
                    seen_path_inputs.add((shape, sig))
                    n = oracle_random_path(m, shape, res, keyp, dict(base, answers=ex.answers))
                    res.count("random_path_executions", n)
            res.sample(dict(gen=gen, shape=shape, kw=kw, answers=ex.answers[:40],
                            bits=R.bits_of(m.connection_list) if m.connection_list.shape == (2,) + shape else None), cap=2)

        if task["mode"] == "stateless":
            with owned_rng():
                st = explore.explore_stateless(lambda: _call(gen, shape, kw), judge, deadline=deadline)
            res.count("executions", st["executions"])
            res.count("states", st["executions"] + st["choice_points"])
            res.count("transitions", st["choice_points"] + st["executions"])
            if st["capped"]:
                res.count("capped_tasks")
        else:
            root = "gen_wilson" if gen == "gen_wilson" else "gen_dfs"
            with owned_rng():
                g = explore.build_state_graph(
                    lambda: _call(gen, shape, kw), lambda m: (m.connection_list.shape, m.connection_list.tobytes(),
                                                             repr(sorted(_cells_set(m.generation_meta.get("visited_cells", []))))),
                    (root,), on_terminal=judge, cap_states=(300_000 if task["tier"] == "quick" else 3_000_000),
                    deadline=deadline)
            res.count("executions", g.executions)
            res.count("states", g.n_states)
            res.count("transitions", g.n_transitions)
            res.count("unmerged_states", g.unmerged)
            if g.capped:
                res.count("capped_tasks")
            else:
                term, rest, it = explore.absorb(g)
                if rest > 1e-9:
                    res.fail(f"{keyp}|termination", f"{gen}{shape}: absorbed mass {1 - rest} < 1 (non-termination with positive probability)",
                             dict(kind="task", task=dict(task, kws=[kw])))
                if not explore.all_reach_terminal(g):
                    res.fail(f"{keyp}|trap", f"{gen}{shape}: a reachable state cannot reach any terminal",
                             dict(kind="task", task=dict(task, kws=[kw])))
            res.add("graphs", (gen, shape, kwkey, g.n_states, g.n_transitions, len(g.terminals()), g.capped))
    _timing_and_unowned(task, res, t_start, unowned0)


# ------------------------------------------------------------------ shape sequences in one interpreter
SEQ_SHAPES = [[(2, 2), (2, 3), (3, 2), (1, 3), (3, 1)], [(3, 1), (1, 3), (3, 2), (2, 3), (2, 2)], [(1, 2), (2, 1), (2, 2), (1, 3), (2, 3)]]


KW_SEQS = [
    ("gen_prim", [dict(accessible_cells=3), {}], "state", "default"),
    ("gen_prim", [dict(start_coord=(0, 0), max_tree_depth=2), {}], "state", "default"),
    ("gen_prim", [{}, dict(accessible_cells=2, start_coord=(1, 1)), {}], "state", "default"),
    ("gen_dfs", [dict(accessible_cells=3), {}], "stateless", "default"),
    ("gen_dfs", [dict(max_tree_depth=1, start_coord=(0, 0)), dict(do_forks=False), {}], "stateless", "default"),
    ("gen_dfs", [dict(accessible_cells=1.0), dict(accessible_cells=1), dict(accessible_cells=1.0)], "stateless", "default"),
    ("gen_dfs", [dict(max_tree_depth=1), dict(max_tree_depth=1.0), dict(max_tree_depth=1)], "stateless", "default"),
    ("gen_dfs_percolation", [dict(p=1.0), dict(p=0.0), dict(p=0.4, accessible_cells=2), dict(p=0.4)], "stateless", "tiny"),
    ("gen_percolation", [dict(p=1.0), dict(p=0.0), dict(p=0.4, start_coord=(0, 0)), dict(p=0.4)], "stateless", "tiny"),
]


def sequence_tasks(tier, which):
    """every generator on several grid shapes that share a row or column count, one after the other in ONE fresh interpreter:
    what a generator (or a helper it calls) remembered from an earlier grid must not change its behaviour on a later one"""
    T = []
    for gen, kw, mode, rand in (("gen_dfs", {}, "stateless", "default"), ("gen_wilson", {}, "state", "default"), ("gen_prim", {}, "state", "default"),
                                ("gen_percolation", dict(p=0.4), "stateless", "tiny"), ("gen_dfs_percolation", dict(p=0.4), "stateless", "tiny"),
                                ("gen_dfs", dict(accessible_cells=3, start_coord=(0, 0)), "stateless", "default")):
        for shapes in SEQ_SHAPES:
            T.append(dict(which=which, tier=tier, sequence=[dict(gen=gen, shape=sh, kws=[dict(kw)], mode=mode, rand=rand, which=which, tier=tier) for sh in shapes]))
    # the same generator called with different arguments one after the other (constrained, then default; count vs fraction spellings
    # of the same number): arguments of an earlier call must not stick
    for gen, kws, mode, rand in KW_SEQS:
        for shapes in ([(2, 3), (3, 2)], [(3, 3), (2, 2)] if mode == "stateless" else [(2, 2), (2, 3)]):  # the randomized stack on 3x3 is a 2-minute graph
            T.append(dict(which=which, tier=tier, sequence=[dict(gen=gen, shape=shapes[i % 2] if len(kws) > 2 else shapes[0], kws=[dict(kw)], mode=mode, rand=rand,
                                                                 which=which, tier=tier) for i, kw in enumerate(kws)]))
    return T


def sequence_task(t, res, upto=None):
    from ..runner import Result

    seq = t["sequence"]
    for k, sub in enumerate(seq):
        sub = dict(sub, shape=tuple(sub["shape"]))
        for kw in sub["kws"]:
            if kw.get("start_coord") is not None:
                kw["start_coord"] = tuple(kw["start_coord"])
        r2 = Result()
        explore_task(sub, r2)
        res.evaluations += r2.evaluations
        for name in ("states", "transitions", "executions", "unowned_draws", "capped_tasks", "random_path_executions"):
            if r2.counters.get(name):
                res.count(name, r2.counters[name])
        res.count("sequence_elements")
        res.nontrivial(("seq", sub["gen"], repr(sub["kws"]), tuple(tuple(x["shape"]) for x in seq), k))
        before = "+".join(f"{x['shape'][0]}x{x['shape'][1]}" for x in seq[:k]) or "nothing"
        for f in r2.fails:
            res.fail(f["key"] + f"|after_{before}_in_the_same_process", f"as element {k} of a sequence of grid shapes generated in one process: " + f["what"],
                     dict(kind="sequence", task=dict(t, sequence=seq[:k + 1])))
        if r2.fails:
            return


# ------------------------------------------------------------------ arguments the caller goes on using
def alias_task(t, res):
    """start_coord handed over as an array that the caller overwrites afterwards (one scratch buffer for a batch of calls): the
    maze and its metadata must keep describing the call as it was made"""
    which = t["which"]
    oracle = oracle_c01 if which == "C01" else oracle_c12
    for gen, kw0, rand in (("gen_dfs", {}, "default"), ("gen_dfs", dict(accessible_cells=3), "default"), ("gen_prim", {}, "default"),
                           ("gen_percolation", dict(p=0.4), "tiny"), ("gen_dfs_percolation", dict(p=0.4, accessible_cells=2), "tiny")):
        choice.RAND_FAMILY[0] = RAND_POLICIES[rand]
        for shape in ((2, 3), (3, 3)):
            cells = R.cells(*shape)
            for cell in cells:
                res.ev()
                buf = np.array(cell)
                kw = dict(kw0, start_coord=buf)
                with owned_rng():
                    ex = explore.run_with([], lambda: _call(gen, shape, kw))
                if ex.exc is not None:
                    continue
                m = ex.out
                before = repr(m.generation_meta.get("start_coord")) if m.generation_meta else None
                buf[:] = cells[-1] if tuple(cell) != cells[-1] else cells[0]   # the caller re-uses its buffer
                after = repr(m.generation_meta.get("start_coord")) if m.generation_meta else None
                kwt = dict(kw0, start_coord=tuple(cell))
                keyp = f"{which}|{gen}|{shape[0]}x{shape[1]}|start_coord_array_reused_by_caller"
                rd = dict(kind="alias", which=which)
                if before != after:
                    res.fail(f"{keyp}|metadata_moved", f"{gen}{shape} {kwt}: generation_meta['start_coord'] was {before} and reads {after} after the caller overwrote the "
                             f"array it had passed as start_coord", rd)
                    continue
                for suffix, msg in oracle(gen, shape, kwt, m):
                    res.fail(f"{keyp}|{suffix}", f"{gen}{shape} {kwt} (start_coord passed as an array, overwritten afterwards): {msg}", rd)
                res.nontrivial(("alias", gen, shape, tuple(cell)))


# ------------------------------------------------------------------ very long walks
def _lcg_answers(n, seed=12345):
    out, x = [], seed
    for _ in range(n):
        x = (x * 1103515245 + 12345) & 0x7FFFFFFF
        out.append((x >> 16) % 4)
    return out


# after the bouncing phase the walk is released with a fixed irregular answer sequence (folded into the arity of each choice point)
LONG_WALKS = [((2, 2), _lcg_answers(4000)), ((2, 3), _lcg_answers(4000, 777)), ((3, 3), _lcg_answers(6000, 4242))]


def long_walk_task(t, res):
    """single executions of gen_wilson far outside the depth the state graph is built to: the walk is made to bounce between two cells
    for K steps (answer 0 at every step) and is then released. Members of the execution space with tiny but positive probability -
    whatever a generator does about "walks that take too long", the result is still a spanning tree."""
    which = t["which"]
    oracle = oracle_c01 if which == "C01" else oracle_c12
    old = CH.max_points
    CH.max_points = 400_000
    CH.scripted = True
    try:
        for shape, tail in LONG_WALKS:
            for K in t["lengths"]:
                res.ev()
                rd = dict(kind="long_walk", which=which, shape=list(shape), K=K, lengths=[K])
                keyp = f"{which}|gen_wilson|{shape[0]}x{shape[1]}||walk_of_more_than_{K}_steps"
                try:
                    with owned_rng():
                        ex = explore.run_with([0] * K + tail, lambda: _call("gen_wilson", shape, {}))
                except choice.HarnessError as e:
                    if "choice points in one execution" in str(e):
                        res.count("long_walks_not_released")
                        continue  # the script did not bring this code to an end: nothing to judge
                    raise
                if ex.exc is not None:
                    res.fail(f"{keyp}|exception|{type(ex.exc).__name__}", f"gen_wilson{shape} raised {type(ex.exc).__name__}: {str(ex.exc)[:200]} on a walk that bounces {K} steps", rd)
                    continue
                for suffix, msg in oracle("gen_wilson", shape, {}, ex.out):
                    res.fail(f"{keyp}|{suffix}", f"gen_wilson{shape} after a walk that bounces between two cells for {K} steps and is then released: {msg}", rd)
                res.nontrivial(("long_walk", shape, K))
                res.count("long_walk_steps", len(ex.trace))
    finally:
        CH.max_points = old
        CH.scripted = False


def _timing(task, res, t_start):
    res.add("timing", (round(time.time() - t_start, 1), task["gen"], tuple(task["shape"]), task["mode"], len(task["kws"]),
                       task.get("rand", ""), res.counters.get("capped_tasks", 0)))


def _timing_and_unowned(task, res, t_start, unowned0):
    res.count("unowned_draws", CH.unowned_draws - unowned0)
    _timing(task, res, t_start)


def replay_case(d, res, which):
    if d.get("kind") == "long_walk":
        long_walk_task(dict(which=d["which"], lengths=d["lengths"]), res)
        return
    if d.get("kind") == "alias":
        alias_task(dict(which=d["which"]), res)
        return
    if d.get("kind") == "sequence":
        sequence_task(d["task"], res)
        return
    if d.get("kind") == "task":
        t = d["task"]
        t["shape"] = tuple(t["shape"])
        for kw in t["kws"]:
            if kw.get("start_coord") is not None:
                kw["start_coord"] = tuple(kw["start_coord"])
        explore_task(t, res)
        return
    gen, shape, kw = d["gen"], tuple(d["shape"]), d["kw"]
    if "start_coord" in kw and kw["start_coord"] is not None:
        kw["start_coord"] = tuple(kw["start_coord"])
    choice.RAND_FAMILY[0] = RAND_POLICIES[d.get("rand", "default")]
    keyp = f"{which}|{gen}|{shape[0]}x{shape[1]}|" + ",".join(f"{k}={v}" for k, v in sorted(kw.items()))
    with owned_rng():
        ex = explore.run_with(d["answers"], lambda: _call(gen, shape, kw))
    if ex.exc is not None:
        res.fail(f"{keyp}|exception|{type(ex.exc).__name__}", f"raised {ex.exc!r}", d)
        return
    oracle = oracle_c01 if which == "C01" else oracle_c12
    for suffix, msg in oracle(gen, shape, kw, ex.out):
        res.fail(f"{keyp}|{suffix}", msg, d)
    if d.get("stage") == "random_path":
        m = ex.out
        adj = R.adjacency(m.connection_list)
        with owned_rng():
            ex2 = explore.run_with(d["path_answers"], lambda: m.generate_random_path())
        if ex2.exc is not None:
            res.fail(f"{keyp}|random_path|{type(ex2.exc).__name__}", f"generate_random_path raised {ex2.exc!r}", d)
        elif not R.path_valid(adj, [tuple(int(x) for x in t) for t in ex2.out]):  # (replay: without the twin history)
            res.fail(f"{keyp}|random_path|invalid", f"random path {ex2.out.tolist()} invalid", d)
