"""C08 Dataset filters select exactly what they document and never disturb their input (DESIGN 5/C08).

Explicit-state BFS over filter *sequences*: each transition applies one real filter to a dataset rebuilt by replaying
its representative history; the result is compared with a list-comprehension reference model, the predecessor is
checked to be untouched, and the provenance record is checked. Plus: from_config(cfg with applied_filters) ==
hand-applied chain, for every filter sequence up to the depth."""
import collections
import itertools
import json

import numpy as np

from .. import refmodel as R
from ..runner import digest

GRID = 3
FULL = (1 << len(R.lattice_edges(GRID, GRID))) - 1


# ------------------------------------------------------------------ start datasets
def _sm(bits, path, meta=None):
    from maze_dataset.maze import SolvedMaze

    return SolvedMaze(connection_list=R.graph_from_bits(GRID, GRID, bits), solution=np.array(path), generation_meta=meta)


def _meta(i, bits, start):
    adj = R.adjacency(R.graph_from_bits(GRID, GRID, bits))
    return dict(func_name="gen_dfs" if i % 2 == 0 else "gen_x", grid_shape=np.array([GRID, GRID]), start_coord=np.array(start),
                n_accessible_cells=9 - (i % 3), fully_connected=bool(i % 2), visited_cells=set(R.component(adj, tuple(start))),
                percolation_p=0.25 * (i % 3))


def start_specs():
    """name -> list of (bits, path, with_meta)"""
    T = R.trees(GRID, GRID)
    t0, t1, t2 = T[0], T[57], T[130]
    adj0 = R.adjacency(R.graph_from_bits(GRID, GRID, t0))

    def sp(bits, s, e):
        return R.all_shortest_paths(R.adjacency(R.graph_from_bits(GRID, GRID, bits)), s, e)[0]

    S = {}
    # strictly increasing solution lengths on one tree
    cells_by_d = sorted(R.bfs_dist(adj0, (0, 0)).items(), key=lambda kv: kv[1])
    inc = []
    for d in (0, 1, 2, 4, 6):
        c = [c for c, dd in cells_by_d if dd == d]
        if c:
            inc.append((t0, sp(t0, (0, 0), c[0])))
    S["increasing"] = inc
    # all-equal lengths, different mazes
    S["equal_len"] = [(FULL, [(0, 0), (0, 1), (0, 2)]), (FULL, [(1, 0), (1, 1), (1, 2)]), (FULL, [(2, 2), (2, 1), (2, 0)]),
                      (FULL ^ 1, [(0, 2), (1, 2), (2, 2)])]
    # exact duplicates at first/last, adjacent, non-adjacent positions
    a, b, c = (t0, sp(t0, (0, 0), (2, 2))), (t1, sp(t1, (0, 1), (2, 0))), (t2, sp(t2, (1, 1), (0, 0)))
    S["dups"] = [a, b, a, c, c, a]
    # near duplicates: Hamming distance 1 and 2 in connections, 1 and 2 entries in solution
    p1, p2, p3 = [(0, 1), (0, 0)], [(0, 1), (0, 2)], [(0, 1), (1, 1)]
    S["near"] = [(FULL, p1), (FULL ^ 1, sp(FULL ^ 1, (2, 2), (0, 0))), (FULL ^ 3, sp(FULL ^ 3, (2, 0), (0, 2))), (FULL ^ 96, p2), (t1, p3),
                 (FULL ^ 7, sp(FULL ^ 7, (2, 2), (2, 0)))]
    # everything fails most filters: one-cell solutions
    S["tiny"] = [(t0, [(1, 1)]), (t1, [(0, 0)]), (t0, [(1, 1)])]
    S["single"] = [(t2, sp(t2, (0, 0), (2, 2)))]
    out = {}
    for k, v in S.items():
        out[k] = [(bits, [tuple(p) for p in path], False) for bits, path in v]
        out[k + "+meta"] = [(bits, [tuple(p) for p in path], True) for bits, path in v]
    return out


def build_start(name):
    from maze_dataset import MazeDataset, MazeDatasetConfig

    spec = start_specs()[name]
    mazes = [_sm(bits, path, _meta(i, bits, path[0]) if wm else None) for i, (bits, path, wm) in enumerate(spec)]
    cfg = MazeDatasetConfig(name=f"c08-{name.replace('+', '-')}", grid_n=GRID, n_mazes=len(mazes))
    return MazeDataset(cfg, mazes)


# ------------------------------------------------------------------ alphabet
def pred_even_start(m, parity=0):
    return (int(m.start_pos[0]) + int(m.start_pos[1])) % 2 == parity


def pred_min_conn(m, k=9):
    return int(m.connection_list.sum()) >= k


CUSTOM = {"pred_even_start": pred_even_start, "pred_min_conn": pred_min_conn}


def alphabet(items, tier):
    """ops enabled in a state whose mazes are `items` [(bits, path, has_meta)]; op = (name, args, kwargs)"""
    n = len(items)
    lens = sorted(len(p) for _, p, _ in items)
    ops = []
    ks = sorted({0, lens[0] if lens else 1, lens[n // 2] if lens else 2, lens[-1] if lens else 3, (lens[-1] if lens else 3) + 1})
    ops += [("path_length", (k,), {}) for k in ks]
    ops += [("start_end_distance", (d,), {}) for d in (0, 1, 2, 4, 9)]
    if n > 0:
        ops += [("cut_percentile_shortest", (p,), {}) for p in (0.0, 10.0, 50.0, 90.0, 100.0)]
        ops.append(("cut_percentile_shortest", (), {}))
    ops += [("truncate_count", (c,), {}) for c in sorted({0, 1, max(n - 1, 0), n, n + 1})]
    ops.append(("remove_duplicates", (), {}))
    ops.append(("remove_duplicates", (), dict(minimum_difference_connection_list=0, minimum_difference_solution=0)))
    ops.append(("remove_duplicates", (), dict(minimum_difference_connection_list=None, minimum_difference_solution=1)))
    ops.append(("remove_duplicates", (2, None), {}))
    ops.append(("remove_duplicates_fast", (), {}))
    ops.append(("strip_generation_meta", (), {}))
    if n > 0 and all(hm for _, _, hm in items):
        ops.append(("collect_generation_meta", (), {}))
        ops.append(("collect_generation_meta", (), dict(inplace=False)))
        ops.append(("collect_generation_meta", (), dict(clear_in_mazes=False, inplace=False)))
    ops.append(("__custom__:pred_even_start", (), {}))
    ops.append(("__custom__:pred_even_start", (), dict(parity=1)))
    ops.append(("__custom__:pred_min_conn", (), dict(k=11)))
    return ops


def apply_op(ds, op):
    name, args, kwargs = op
    if name.startswith("__custom__:"):
        return ds.custom_maze_filter(CUSTOM[name.split(":", 1)[1]], **kwargs)
    return getattr(ds.filter_by, name)(*args, **kwargs)


# ------------------------------------------------------------------ reference model
def ref_percentile(lengths, p):
    """linear-interpolation percentile (the documented default of the numerical library), truncated"""
    s = sorted(lengths)
    if len(s) == 1:
        return int(s[0])
    rank = (p / 100.0) * (len(s) - 1)
    lo = int(rank // 1)
    hi = min(lo + 1, len(s) - 1)
    frac = rank - lo
    return int(s[lo] + (s[hi] - s[lo]) * frac)


def _near(a, b, t_cl, t_sol):
    (ba, pa, _), (bb, pb, _) = a, b
    if t_cl is not None:
        if bin(ba ^ bb).count("1") <= t_cl:
            return True
    if t_sol is not None and len(pa) == len(pb):
        diff = sum((x[0] != y[0]) + (x[1] != y[1]) for x, y in zip(pa, pb))
        if diff <= t_sol:
            return True
    return False


def ref_apply(items, op):
    """items: list of (bits, path, has_meta) -> expected kept indices"""
    name, args, kwargs = op
    n = len(items)
    if name == "path_length":
        return [i for i, (_, p, _) in enumerate(items) if len(p) >= args[0]]
    if name == "start_end_distance":
        return [i for i, (_, p, _) in enumerate(items) if R.manhattan(p[0], p[-1]) >= args[0]]
    if name == "cut_percentile_shortest":
        pct = args[0] if args else kwargs.get("percentile", 10.0)
        cut = ref_percentile([len(p) for _, p, _ in items], pct)
        return [i for i, (_, p, _) in enumerate(items) if len(p) > cut]
    if name == "truncate_count":
        return list(range(min(n, args[0])))
    if name == "remove_duplicates":
        t_cl = args[0] if len(args) > 0 else kwargs.get("minimum_difference_connection_list", 1)
        t_sol = args[1] if len(args) > 1 else kwargs.get("minimum_difference_solution", 1)
        return [i for i in range(n) if not any(_near(items[i], items[j], t_cl, t_sol) for j in range(i + 1, n))]
    if name == "remove_duplicates_fast":
        seen, keep = set(), []
        for i, (b, p, _) in enumerate(items):
            if (b, tuple(p)) not in seen:
                seen.add((b, tuple(p)))
                keep.append(i)
        return keep
    if name in ("strip_generation_meta", "collect_generation_meta"):
        return list(range(n))
    if name == "__custom__:pred_even_start":
        par = kwargs.get("parity", 0)
        return [i for i, (_, p, _) in enumerate(items) if (p[0][0] + p[0][1]) % 2 == par]
    if name == "__custom__:pred_min_conn":
        return [i for i, (b, _, _) in enumerate(items) if bin(b).count("1") >= kwargs.get("k", 9)]
    raise KeyError(name)


def _normkey(k):
    if isinstance(k, (tuple, list, np.ndarray)):
        return tuple(int(x) for x in k)
    if isinstance(k, (np.integer,)):
        return int(k)
    if isinstance(k, (np.floating,)):
        return float(k)
    if isinstance(k, np.bool_):
        return bool(k)
    return k


def ref_collect(metas):
    out = collections.defaultdict(collections.Counter)
    for meta in metas:
        for key, v in meta.items():
            if isinstance(v, (bool, int, float, str)):
                out[key][_normkey(v)] += 1
            elif isinstance(v, set):
                for c in v:
                    out[key][_normkey(c)] += 1
            else:
                a = np.array(v)
                if a.ndim == 1:
                    out[key][_normkey(a)] += 1
                else:
                    for row in a:
                        out[key][_normkey(row)] += 1
    return {k: dict(c) for k, c in out.items()}


# ------------------------------------------------------------------ observation helpers
def items_of(ds):
    return [(R.bits_of(m.connection_list), [tuple(int(x) for x in c) for c in m.solution], m.generation_meta is not None) for m in ds.mazes]


def deep_fp(ds):
    """everything about the input a filter must not disturb"""
    parts = []
    for m in ds.mazes:
        gm = None if m.generation_meta is None else sorted((k, repr(sorted(v, key=repr)) if isinstance(v, set) else repr(np.asarray(v).tolist()))
                                                           for k, v in m.generation_meta.items())
        parts.append((m.connection_list.tobytes(), m.connection_list.shape, m.solution.tolist(), m.start_pos.tolist(), m.end_pos.tolist(), gm))
    return digest((parts, json.dumps(ds.cfg.serialize(), sort_keys=True, default=str), len(ds),
                   repr(sorted(ds.generation_metadata_collected.keys())) if ds.generation_metadata_collected else None))


def state_key(ds):
    return (tuple((b, tuple(p), hm) for b, p, hm in items_of(ds)), ds.generation_metadata_collected is not None)


def rebuild(s0, hist, chain=None):
    """the dataset reached through hist; `chain` (a list) receives every dataset on the way (root first, the result last)"""
    ds = build_start(s0)
    if chain is not None:
        chain.append(ds)
    for op in hist:
        ds = apply_op(ds, op)
        if chain is not None and not any(ds is x for x in chain):
            chain.append(ds)
    return ds


def _tup(op):
    name, args, kwargs = op
    return (name, tuple(args), dict(kwargs))


def opkey(op):
    name, args, kwargs = op
    if name == "remove_duplicates":
        return f"remove_duplicates({','.join(map(str, args))};{','.join(f'{k}={v}' for k, v in sorted(kwargs.items()))})"
    if name == "collect_generation_meta":
        return f"collect_generation_meta({','.join(f'{k}={v}' for k, v in sorted(kwargs.items()))})"
    return name


# ------------------------------------------------------------------ one transition
def judge_transition(s0, hist, op, res):
    """returns the successor dataset (or None when the op raised)"""
    op = _tup(op)
    hist = [_tup(h) for h in hist]
    chain = []
    pre = rebuild(s0, hist, chain)
    ancestors = [d for d in chain if d is not pre]  # every earlier dataset of the history is somebody's input: none may be disturbed later
    anc_fp = [deep_fp(d) for d in ancestors]
    items = items_of(pre)
    pre_fp = deep_fp(pre)
    pre_filters = json.loads(json.dumps(pre.cfg.serialize()["applied_filters"], default=str))
    pre_metas = [dict(m.generation_meta) if m.generation_meta is not None else None for m in pre.mazes]
    pre_collected = pre.generation_metadata_collected
    rd = dict(s0=s0, hist=hist, op=op)
    ok = opkey(op)
    res.ev()
    try:
        out = apply_op(pre, op)
    except Exception as e:
        res.fail(f"C08|{ok}|raised|{type(e).__name__}", f"{op} after {hist} on '{s0}' raised {type(e).__name__}: {str(e)[:200]}", rd)
        return None
    name, args, kwargs = op
    inplace = name == "collect_generation_meta" and kwargs.get("inplace", True)
    want = ref_apply(items, op)
    got = items_of(out)
    want_items = [items[i] for i in want]
    if [(b, p) for b, p, _ in got] != [(b, p) for b, p, _ in want_items]:
        pos = "empty" if not want_items else "subset"
        res.fail(f"C08|{ok}|selection", f"{op} after {hist} on '{s0}': kept {[(b, len(p)) for b, p, _ in got]} (bits,len), expected indices {want} = "
                 f"{[(b, len(p)) for b, p, _ in want_items]} of input {[(b, len(p)) for b, p, _ in items]}", rd)
    if want and len(want) < len(items):
        res.nontrivial((state_key(pre)[0], op[0], repr(op[1:])))
    # result is a new object; predecessor untouched
    if not inplace:
        if out is pre:
            if not (name == "collect_generation_meta" and pre_collected is not None):
                res.fail(f"C08|{ok}|same_object", f"{op}: result is the input object", rd)
        elif deep_fp(pre) != pre_fp:
            res.fail(f"C08|{ok}|input_disturbed", f"{op} after {hist} on '{s0}': the input dataset (mazes / length / cfg) changed", rd)
        if out is not pre and (out.cfg is pre.cfg or out.cfg.applied_filters is pre.cfg.applied_filters):
            res.fail(f"C08|{ok}|cfg_aliased", f"{op}: result shares its cfg / applied_filters list with the input", rd)
        if out is not pre and any(a is b for a in out.mazes for b in pre.mazes) and name != "collect_generation_meta":
            pass  # sharing immutable maze objects is not excluded by the property
    else:
        # documented in-place collection: mazes, order, length, cfg other than the provenance entry stay
        if [(b, p) for b, p, _ in items_of(pre)] != [(b, p) for b, p, _ in items]:
            res.fail(f"C08|{ok}|input_disturbed", f"in-place {op} changed the mazes of the input", rd)
    for k, (d, f0) in enumerate(zip(ancestors, anc_fp)):
        if deep_fp(d) != f0:
            res.fail(f"C08|{ok}|earlier_input_disturbed|after_{opkey(hist[-1]) if hist else 'start'}",
                     f"{op} after {hist} on '{s0}': dataset number {k} of the history (an input of an earlier filter) changed "
                     f"(mazes / per-maze metadata / length / cfg)", rd)
            break
    # provenance
    if not (name == "collect_generation_meta" and pre_collected is not None):
        rec = json.loads(json.dumps(out.cfg.serialize()["applied_filters"], default=str))
        want_rec = json.loads(json.dumps(dict(name=name, args=list(args), kwargs=kwargs)))

        def norm(lst):  # a record without positional arguments may omit the (empty) args entry
            return [dict(name=r.get("name"), args=list(r.get("args", [])), kwargs=dict(r.get("kwargs", {}))) for r in lst]

        if norm(rec) != norm(pre_filters + [want_rec]):
            res.fail(f"C08|{ok}|provenance", f"{op} after {hist}: applied_filters is {rec}, expected {pre_filters + [want_rec]}", rd)
    if out.cfg.n_mazes != len(out.mazes) or len(out) != len(out.mazes):
        res.fail(f"C08|{ok}|n_mazes", f"{op}: cfg.n_mazes={out.cfg.n_mazes}, len={len(out)}, mazes={len(out.mazes)}", rd)
    # metadata collection: exact value counts
    if name == "collect_generation_meta" and pre_collected is None:
        wantc = ref_collect(pre_metas)
        gotc = {k: {_normkey(kk): vv for kk, vv in v.items()} for k, v in (out.generation_metadata_collected or {}).items()}
        if gotc != wantc:
            badk = sorted(k for k in set(gotc) | set(wantc) if gotc.get(k) != wantc.get(k))
            res.fail(f"C08|{ok}|counts", f"collected metadata differs from exact counts for keys {badk}: got {[(k, gotc.get(k)) for k in badk][:2]} "
                     f"expected {[(k, wantc.get(k)) for k in badk][:2]}", rd)
        cleared = all(m.generation_meta is None for m in out.mazes)
        if kwargs.get("clear_in_mazes", True) != cleared and len(out.mazes):
            res.fail(f"C08|{ok}|clear", f"clear_in_mazes={kwargs.get('clear_in_mazes', True)} but per-maze metadata cleared={cleared}", rd)
    if name == "strip_generation_meta" and any(m.generation_meta is not None for m in out.mazes):
        res.fail(f"C08|{ok}|not_stripped", "strip_generation_meta left per-maze metadata", rd)
    return out


# ------------------------------------------------------------------ BFS worker (one start dataset per task)
def task(t, res):
    s0, depth = t["s0"], t["depth"]
    root = build_start(s0)
    seen = {state_key(root): []}
    frontier = collections.deque([[]])
    n_trans = 0
    while frontier:
        hist = frontier.popleft()
        pre = rebuild(s0, hist)
        for op in alphabet(items_of(pre), t["tier"]):
            out = judge_transition(s0, hist, op, res)
            n_trans += 1
            if out is None:
                continue
            k = state_key(out)
            if t.get("unmerged"):
                # no state merging: the history itself is the state (whatever a dataset or its config remembers of the path taken)
                k = (k, repr(hist + [op]))
            if k not in seen:
                seen[k] = hist + [op]
                if len(hist) + 1 < depth:
                    frontier.append(hist + [op])
    res.count("states", len(seen))
    res.count("transitions", n_trans)
    res.add("per_start", (s0, len(seen), n_trans))
    res.sample(dict(start=s0, a_history=[list(map(str, h)) for h in list(seen.values())[-1]]), cap=3)


# ------------------------------------------------------------------ from_config conformance
def _cfg_base(t):
    from maze_dataset import MazeDataset, MazeDatasetConfig
    from maze_dataset.generation import LatticeMazeGenerators as G

    gen = {"gen_dfs": G.gen_dfs, "gen_percolation": G.gen_percolation, "gen_dfs_percolation": G.gen_dfs_percolation}[t["gen"]]
    kw = t.get("kw", {})
    seed = t["seed"]

    def mkcfg(filters, seed):
        return MazeDatasetConfig(name="c08cfg", grid_n=t["grid"], n_mazes=t["n"], maze_ctor=gen, maze_ctor_kwargs=dict(kw), seed=seed,
                                 applied_filters=[dict(name=n, args=tuple(a), kwargs=dict(k)) for n, a, k in filters])

    base = None
    for _try in range(40):  # percolation may hit the documented ValueError (isolated start cell): take the first seed that generates
        try:
            base = MazeDataset.generate(mkcfg([], seed))
            break
        except ValueError:
            seed += 1
    if base is None:
        raise RuntimeError("no generating seed found")
    base_items = [(R.bits_of(m.connection_list), [tuple(int(x) for x in c) for c in m.solution], True) for m in base.mazes]
    return base_items, (lambda filters: mkcfg(filters, seed))


def judge_cfg_seq(t, base_items, mkcfg, seq, res):
    from maze_dataset import MazeDataset

    res.ev()
    rd = dict(kind="cfg", t={k: v for k, v in t.items()}, seq=[_tup(o) for o in seq])
    items = list(base_items)
    for op in seq:
        items = [items[i] for i in ref_apply(items, op)]
    cfg = mkcfg(seq)
    ser_before = json.dumps(cfg.serialize(), sort_keys=True, default=str)
    key = "+".join(opkey(o) for o in seq)
    try:
        ds = MazeDataset.from_config(cfg, load_local=False, save_local=False, do_download=False)
    except Exception as e:
        res.fail(f"C08|from_config|{key}|raised|{type(e).__name__}", f"from_config with filters {seq} raised {type(e).__name__}: {str(e)[:200]}", rd)
        return
    got = [(R.bits_of(m.connection_list), [tuple(int(x) for x in c) for c in m.solution]) for m in ds.mazes]
    if got != [(b, p) for b, p, _ in items]:
        res.fail(f"C08|from_config|{key}|selection", f"from_config with filters {seq}: {len(got)} mazes, hand-applied chain gives {len(items)} "
                 f"(or different mazes/order)", rd)
    if json.dumps(cfg.serialize(), sort_keys=True, default=str) != ser_before:
        res.fail(f"C08|from_config|{key}|cfg_modified", f"from_config modified the configuration passed in (filters {seq})", rd)
    if 0 < len(items) < len(base_items):
        res.nontrivial(("cfg", t["gen"], t["seed"], repr(seq)))


def cfg_filters_task(t, res):
    base_items, mkcfg = _cfg_base(t)
    singles = [op for op in alphabet(base_items, t["tier"]) if not op[0].startswith("__custom__")
               and not (op[0] == "collect_generation_meta" and op[2])]
    seqs = [[op] for op in singles] if t["slice"] == 0 else []
    if t["depth"] >= 2:
        firsts = [op for op in singles if op[0] in ("path_length", "cut_percentile_shortest", "truncate_count", "remove_duplicates_fast", "start_end_distance")]
        for a in firsts[t["slice"]::t["nslices"]]:
            it = [base_items[i] for i in ref_apply(base_items, a)]
            for b in alphabet(it, t["tier"]):
                if b[0].startswith("__custom__") or b[0] == "collect_generation_meta":
                    continue
                seqs.append([a, b])
    for seq in seqs:
        judge_cfg_seq(t, base_items, mkcfg, seq, res)


def run(ctx):
    depth = 2 if ctx.quick else 3
    starts = sorted(start_specs())
    tasks = [dict(s0=s, depth=depth + (1 if ctx.quick else 0), tier=ctx.tier) for s in starts]
    # the same search without merging states (every filter sequence up to the depth is executed as such) from a few start datasets
    # (a filter that returns "the same" dataset - nothing cut off, nothing removed - leads back to a state already seen, so only the unmerged
    #  search runs a further step on ITS result)
    tasks += [dict(s0=s, depth=2, tier=ctx.tier, unmerged=True) for s in starts]
    if not ctx.quick:
        tasks += [dict(s0=s, depth=3, tier=ctx.tier, unmerged=True) for s in starts[::3]]
    ctx.pmap("mzcheck.checks.c08", "task", tasks)
    for hs in (("4", "7") if ctx.quick else ("1", "2", "4", "7", "123", "4242")):  # two start datasets again in interpreters with other hash seeds
        ctx.pmap("mzcheck.checks.c08", "task", [dict(s0=s, depth=2, tier=ctx.tier) for s in starts[:2]], hashseed=hs)
    cfg_tasks = []
    gens = [("gen_dfs", {}, 42), ("gen_dfs", dict(do_forks=False), 7), ("gen_percolation", dict(p=0.5), 3), ("gen_dfs_percolation", dict(p=0.2), 5)]
    ns = 4
    for gen, kw, seed in gens if not ctx.quick else gens[:3]:
        for sl in range(ns):
            cfg_tasks.append(dict(gen=gen, kw=kw, seed=seed, grid=3, n=6, depth=2, slice=sl, nslices=ns, tier=ctx.tier))
    ctx.pmap("mzcheck.checks.c08", "cfg_filters_task", cfg_tasks)
    c = ctx.res.counters
    ctx.coverage.update(states=c.get("states", 0), transitions=c.get("transitions", 0),
                        traces_validated_against_impl=c.get("transitions", 0) + ctx.res.evaluations,
                        depth=depth + (1 if ctx.quick else 0), unmerged_depth="2 from every start" + ("" if ctx.quick else ", 3 from every 3rd"), start_datasets=starts, per_start=sorted(ctx.res.sets.get("per_start", ())))
    ctx.rule = ("BFS over filter sequences (alphabet: all built-in filters with boundary arguments + custom predicates) from crafted start datasets, "
                "states de-duplicated by (mazes in order, metadata presence), and again without merging from every start dataset (every sequence of 2 filters as such; thorough: of 3 from every 3rd start); every transition judged against the reference model; "
                "non-trivial = transitions whose expected result is a proper non-empty subset")
    ctx.exhaustive = True
    ctx.assumptions += ["state key drops the append-only applied_filters log (checked on every transition instead)",
                        "metadata collection is only enabled where its documented precondition (all mazes carry metadata) holds"]


def replay(d, res):
    if d.get("kind") == "cfg":
        t = dict(d["t"])
        if "kw" in t and isinstance(t["kw"], dict):
            t["kw"] = dict(t["kw"])
        base_items, mkcfg = _cfg_base(t)
        judge_cfg_seq(t, base_items, mkcfg, [_tup(o) for o in d["seq"]], res)
        return
    judge_transition(d["s0"], [_tup(h) for h in d["hist"]], _tup(d["op"]), res)
