"""C13 All graph queries on a maze agree with its connection structure (DESIGN 5/C13).

Every connection structure of the stated grids is enumerated; each public graph query of the real library is called
for every cell / ordered pair / candidate path / solution and compared with the dict-of-sets adjacency of refmodel.
`as_adj_list` consumes randomness: it runs under the choice oracle (all answers up to 4 connections, identity + one
deviation above)."""
from __future__ import annotations

import numpy as np

from .. import choice, explore, refmodel as R
from ..choice import HI, owned_rng

MOD = "mzcheck.checks.c13"
STEPS = ((1, 0), (-1, 0), (0, 1), (0, -1))
REL = {(0, 0): "equal", (1, 0): "down", (-1, 0): "up", (0, 1): "right", (0, -1): "left"}


# ------------------------------------------------------------------ graph under test
class G:
    def __init__(self, r, c, bits):
        from maze_dataset.maze import LatticeMaze

        self.r, self.c, self.bits = int(r), int(c), int(bits)
        self.cl = R.graph_from_bits(self.r, self.c, self.bits)
        self.adj = R.adjacency(self.cl)
        self.cells = R.cells(self.r, self.c)
        self.E = R.n_edges(self.adj)
        self.edges = {frozenset((a, b)) for a in self.adj for b in self.adj[a]}
        self.m = LatticeMaze(connection_list=self.cl.copy())
        self.shape_cls = "square" if self.r == self.c else "oblong"

    def rd(self, fn, **args):
        return dict(kind="graph", fn=fn, r=self.r, c=self.c, bits=str(self.bits), args=args)

    def tag(self):
        return f"{self.r}x{self.c} graph bits={self.bits:#x} (edges {sorted(tuple(sorted(e)) for e in self.edges)})" \
            if self.r * self.c <= 16 else f"{self.r}x{self.c} graph bits={self.bits:#x}"

    def pos(self, v):
        i, j = v
        s = ("t" if i == 0 else "") + ("b" if i == self.r - 1 else "") + ("l" if j == 0 else "") + ("r" if j == self.c - 1 else "")
        return s or "inner"


def rel(a, b):
    d = (b[0] - a[0], b[1] - a[1])
    if d in REL:
        return REL[d]
    return "diagonal" if (abs(d[0]), abs(d[1])) == (1, 1) else "far"


def tups(arr):
    """array of coords -> list of int tuples ([] for an empty array of any shape)"""
    arr = np.asarray(arr)
    if arr.size == 0:
        return []
    return [tuple(int(x) for x in t) for t in arr.reshape(-1, arr.shape[-1])]


def _exc(e):
    return f"{type(e).__name__}: {str(e)[:160]}"


# ------------------------------------------------------------------ single-case checks (used by enumeration AND replay)
def chk_nodes_connected(g, res, a, b):
    res.ev()
    a, b = tuple(a), tuple(b)
    want = b in g.adj[a]
    k = f"C13|nodes_connected|{rel(a, b)}"
    try:
        got = g.m.nodes_connected(np.array(a), np.array(b))
    except Exception as e:
        res.fail(f"{k}|raises|{type(e).__name__}", f"nodes_connected({a},{b}) raised {_exc(e)} on {g.tag()}", g.rd("nodes_connected", a=a, b=b))
        return
    if bool(got) != want:
        res.fail(f"{k}|{'missed' if want else 'spurious'}", f"nodes_connected({a},{b}) = {got!r}, reference says {want} on {g.tag()}",
                 g.rd("nodes_connected", a=a, b=b))
    if want:
        res.count("nodes_connected_true")


def chk_neighbors(g, res, v):
    res.ev()
    v = tuple(v)
    k = f"C13|get_coord_neighbors|{g.pos(v)}"
    try:
        out = g.m.get_coord_neighbors(np.array(v))
    except Exception as e:
        res.fail(f"{k}|raises|{type(e).__name__}", f"get_coord_neighbors({v}) raised {_exc(e)} on {g.tag()}", g.rd("neighbors", v=v))
        return
    got = tups(out)
    want = g.adj[v]
    sym = None
    if len(got) != len(set(got)):
        sym = "duplicate"
    elif set(got) - want:
        sym = "extra-" + rel(v, sorted(set(got) - want)[0])
    elif want - set(got):
        sym = "missing-" + rel(v, sorted(want - set(got))[0])
    if sym:
        res.fail(f"{k}|{sym}", f"get_coord_neighbors({v}) = {got}, reference {sorted(want)} on {g.tag()}", g.rd("neighbors", v=v))


def chk_degrees(g, res):
    res.ev()
    try:
        out = np.asarray(g.m.coord_degrees())
    except Exception as e:
        res.fail(f"C13|coord_degrees|{g.shape_cls}|raises|{type(e).__name__}", f"coord_degrees raised {_exc(e)} on {g.tag()}", g.rd("degrees"))
        return
    if out.shape != (g.r, g.c):
        res.fail(f"C13|coord_degrees|{g.shape_cls}|shape", f"coord_degrees has shape {out.shape} on {g.tag()}", g.rd("degrees"))
        return
    for v in g.cells:
        if int(out[v]) != len(g.adj[v]):
            res.fail(f"C13|coord_degrees|{g.pos(v)}|{'low' if int(out[v]) < len(g.adj[v]) else 'high'}",
                     f"coord_degrees()[{v}] = {int(out[v])}, reference degree {len(g.adj[v])} on {g.tag()}", g.rd("degrees"))
            return


def chk_component(g, res, v):
    res.ev()
    v = tuple(v)
    try:
        out = g.m.gen_connected_component_from(np.array(v))
    except Exception as e:
        res.fail(f"C13|gen_connected_component_from|raises|{type(e).__name__}", f"gen_connected_component_from({v}) raised {_exc(e)} on {g.tag()}",
                 g.rd("component", v=v))
        return
    got = tups(out)
    want = R.component(g.adj, v)
    sym = "duplicate" if len(got) != len(set(got)) else "extra" if set(got) - want else "missing" if want - set(got) else None
    if sym:
        res.fail(f"C13|gen_connected_component_from|{sym}", f"gen_connected_component_from({v}) = {sorted(got)}, reference {sorted(want)} on {g.tag()}",
                 g.rd("component", v=v))
    if 1 < len(want) < len(g.cells):
        res.count("components_proper")


def chk_cc(g, res):
    """get_connected_component on a maze without generation_meta: the library documents that it *assumes* a single
    component then, so the claim is made for connected graphs only (disconnected ones are counted, not judged)"""
    if not R.is_connected(g.adj):
        res.count("get_connected_component_not_claimed_disconnected")
        return
    res.ev()
    try:
        got = tups(g.m.get_connected_component())
    except Exception as e:
        res.fail(f"C13|get_connected_component|raises|{type(e).__name__}", f"get_connected_component raised {_exc(e)} on {g.tag()}", g.rd("cc"))
        return
    if len(got) != len(set(got)) or set(got) != set(g.cells):
        res.fail("C13|get_connected_component|connected|wrong", f"get_connected_component() = {sorted(got)} on connected {g.tag()}", g.rd("cc"))


def chk_path(g, res, path, eiv, cls):
    res.ev()
    path = tuple(tuple(p) for p in path)
    want = bool(eiv) if len(path) == 0 else R.path_valid(g.adj, path)
    arr = np.array(path, dtype=int).reshape(-1, 2)
    k = f"C13|is_valid_path|{cls}|empty_is_valid={bool(eiv)}" if len(path) == 0 else f"C13|is_valid_path|{cls}"
    try:
        got = g.m.is_valid_path(arr, empty_is_valid=eiv)
    except Exception as e:
        res.fail(f"{k}|raises|{type(e).__name__}", f"is_valid_path({list(path)}, empty_is_valid={eiv}) raised {_exc(e)} on {g.tag()}",
                 g.rd("path", path=path, eiv=eiv, cls=cls))
        return
    if bool(got) != want:
        res.fail(f"{k}|{'rejected' if want else 'accepted'}", f"is_valid_path({list(path)}, empty_is_valid={eiv}) = {got!r}, reference {want} on {g.tag()}",
                 g.rd("path", path=path, eiv=eiv, cls=cls))
    res.count("paths_valid" if want else "paths_invalid")


def chk_get_nodes(g, res):
    res.ev()
    try:
        got = tups(g.m.get_nodes())
    except Exception as e:
        res.fail(f"C13|get_nodes|{g.shape_cls}|raises|{type(e).__name__}", f"get_nodes raised {_exc(e)} on {g.r}x{g.c}", g.rd("get_nodes"))
        return
    if len(got) != len(set(got)) or set(got) != set(g.cells):
        res.fail(f"C13|get_nodes|{g.shape_cls}|wrong", f"get_nodes() = {got} on {g.r}x{g.c}", g.rd("get_nodes"))


def adj_symptom(g, al):
    """each connection exactly once, in either orientation"""
    al = np.asarray(al)
    if al.shape != (g.E, 2, 2):
        return "shape", f"shape {al.shape}, expected ({g.E}, 2, 2)"
    pairs = [(tuple(int(x) for x in a), tuple(int(x) for x in b)) for a, b in al.tolist()]
    want = g.edges
    got = [frozenset(p) for p in pairs]
    for p, f in zip(pairs, got):
        if len(f) != 2 or R.manhattan(p[0], p[1]) != 1:
            return "notanedge", f"entry {p} is not a lattice edge"
    if len(set(got)) != len(got):
        return "duplicate", "a connection is listed twice"
    if set(got) - want:
        return "extra", f"lists {sorted(map(sorted, set(got) - want))} which are walls"
    if want - set(got):
        return "missing", f"misses {sorted(map(sorted, want - set(got)))}"
    return None


def from_adj_claimed(g):
    """square, and the highest row index and the highest column index both occur in some connection"""
    if g.r != g.c or g.E == 0:
        return False
    es = [v for e in g.edges for v in e]
    return max(v[0] for v in es) == g.r - 1 and max(v[1] for v in es) == g.c - 1


def judge_adj(g, res, d0, d1, ex, via):
    """one execution of as_adj_list / connection_list_to_adj_list (+ the rebuild from it where claimed)"""
    res.ev()
    flags = f"d0={int(d0)},d1={int(d1)}"
    rd = g.rd("adj", d0=bool(d0), d1=bool(d1), answers=list(ex.answers), via=via)
    if ex.exc is not None:
        res.fail(f"C13|{via}|{flags}|raises|{type(ex.exc).__name__}", f"{via}({flags}) raised {_exc(ex.exc)} for answers {ex.answers} on {g.tag()}", rd)
        return
    s = adj_symptom(g, ex.out)
    nondefault = any(a != 0 for a in ex.answers)
    if s:
        res.fail(f"C13|{via}|{flags}|{'shuffled' if nondefault else 'default-answers'}|{s[0]}",
                 f"{via}({flags}) with RNG answers {ex.answers} = {np.asarray(ex.out).tolist()}: {s[1]}; on {g.tag()}", rd)
        return
    if nondefault:
        res.count("adj_list_shuffled_executions")
    if from_adj_claimed(g):
        res.ev()
        from maze_dataset.maze import LatticeMaze

        k = f"C13|from_adj_list|{flags}|{'shuffled' if nondefault else 'default-answers'}"
        try:
            cl2 = np.asarray(LatticeMaze.from_adj_list(ex.out).connection_list)
        except Exception as e:
            res.fail(f"{k}|raises|{type(e).__name__}", f"from_adj_list({np.asarray(ex.out).tolist()}) raised {_exc(e)} on {g.tag()}", rd)
            return
        res.count("from_adj_list_rebuilds")
        if cl2.shape != g.cl.shape or cl2.astype(np.bool_).tobytes() != g.cl.tobytes():
            res.fail(f"{k}|differs", f"from_adj_list(as_adj_list({flags}), answers {ex.answers}) has bits "
                     f"{R.bits_of(cl2) if cl2.shape == g.cl.shape else cl2.shape} != {g.bits:#x}; adj list {np.asarray(ex.out).tolist()}; on {g.tag()}", rd)


def rand_family(shape):
    """flip vectors for np.random.rand(E): all 2^E for E <= 4, else none / all / each single / all but one / alternating"""
    k = int(np.prod(shape)) if len(shape) else 1
    if k <= 4:
        return choice._rand_family_default(shape)
    fam = [np.zeros(k), np.full(k, HI)]
    for i in range(k):
        a = np.zeros(k)
        a[i] = HI
        fam.append(a)
        fam.append(HI - a)
    a = np.array([HI if i % 2 else 0.0 for i in range(k)])
    fam += [a, HI - a]
    return [f.reshape(shape) for f in fam]


def explore_adj(g, res, flags=((True, True), (True, False), (False, True), (False, False))):
    """must be called under owned_rng(). All answers for E <= 4 connections; above that default answers + every single
    deviation with both flags on, default answers only with one flag (its single deviations are the same answer vectors)"""
    for d0, d1 in flags:
        dev = None if g.E <= 4 else 1 if (d0 and d1) else 0
        st = explore.explore_stateless(lambda: g.m.as_adj_list(shuffle_d0=d0, shuffle_d1=d1),
                                       lambda ex: judge_adj(g, res, d0, d1, ex, "as_adj_list"), dev=dev)
        res.count("adj_list_executions", st["executions"])
        if g.E <= 4:
            res.count("adj_list_fully_explored_calls")


def chk_cl2adj(g, res):
    """token_utils.connection_list_to_adj_list called directly: default arguments (under the oracle, default answers)
    and both flags off (consumes no randomness)"""
    from maze_dataset import token_utils

    ex = explore.run_with([], lambda: token_utils.connection_list_to_adj_list(g.cl))
    judge_adj(g, res, True, True, ex, "connection_list_to_adj_list")
    ex = explore.run_with([], lambda: token_utils.connection_list_to_adj_list(g.cl, False, False))
    judge_adj(g, res, False, False, ex, "connection_list_to_adj_list")


def edge_batches(g):
    L = [R.edge_cells(e) for e in R.lattice_edges(g.r, g.c)]
    out = dict(canonical=[(a, b) for a, b in L], reversed=[(b, a) for a, b in L],
               mixed=[(a, b) if i % 2 else (b, a) for i, (a, b) in enumerate(L)], empty=[])
    return out


def chk_is_connection(g, res, mode, dtype="int64"):
    from maze_dataset import token_utils, utils

    res.ev()
    if mode == "lattice_connection_array":
        edges = np.asarray(utils.lattice_connection_array(g.r))
    else:
        edges = np.array(edge_batches(g)[mode], dtype=dtype).reshape(-1, 2, 2)
    rd = g.rd("is_connection", mode=mode, dtype=dtype)
    try:
        out = np.asarray(token_utils.is_connection(edges, g.cl))
    except Exception as e:
        res.fail(f"C13|is_connection|{mode}|raises|{type(e).__name__}", f"is_connection({edges.tolist()}) raised {_exc(e)} on {g.tag()}", rd)
        return
    if out.shape != (len(edges),):
        res.fail(f"C13|is_connection|{mode}|shape", f"is_connection returned shape {out.shape} for {len(edges)} edges on {g.tag()}", rd)
        return
    for (a, b), got in zip(edges.tolist(), out.tolist()):
        a, b = tuple(a), tuple(b)
        want = b in g.adj.get(a, ())
        if bool(got) != want:
            orient = "horizontal" if a[0] == b[0] else "vertical"
            res.fail(f"C13|is_connection|{mode}|{orient}|{'missed' if want else 'spurious'}",
                     f"is_connection says {got} for edge {a}-{b}, reference {want}; batch {mode} on {g.tag()}", rd)
            return


def fork_rule(g, sol, always_include_endpoints=False):
    """index i of the solution is a forking point iff the walker has more than one onward choice there:
    all connected neighbours count at the first and last cell, all but the cell it came from at an interior cell"""
    out = []
    n = len(sol)
    for i, v in enumerate(sol):
        endpoint = i == 0 or i == n - 1
        onward = len(g.adj[tuple(v)]) - (0 if endpoint else 1)
        if onward > 1 or (endpoint and always_include_endpoints):
            out.append(i)
    return out


def chk_forks(g, res, sol, cls):
    from maze_dataset.maze import SolvedMaze

    sol = [tuple(p) for p in sol]
    rd = g.rd("forks", sol=sol, cls=cls)
    try:
        sm = SolvedMaze(connection_list=g.cl.copy(), solution=np.array(sol))
    except Exception as e:
        res.ev()
        res.fail(f"C13|SolvedMaze|{cls}|raises|{type(e).__name__}", f"SolvedMaze(solution={sol}) raised {_exc(e)} on {g.tag()}", rd)
        return
    n = len(sol)

    def degcls(i):
        return f"{'endpoint' if i in (0, n - 1) else 'interior'}-deg{len(g.adj[sol[i]])}"

    for aie in (False, True):
        res.ev()
        want = fork_rule(g, sol, aie)
        k = f"C13|get_solution_forking_points|always_include_endpoints={aie}"
        try:
            idx, coords = sm.get_solution_forking_points(always_include_endpoints=aie)
        except Exception as e:
            res.fail(f"{k}|raises|{type(e).__name__}", f"get_solution_forking_points raised {_exc(e)} for solution {sol} on {g.tag()}", rd)
            continue
        idx = [int(i) for i in idx]
        if idx != want:
            d = sorted(set(idx) ^ set(want))
            sym = (f"{degcls(d[0])}|{'extra' if d[0] in idx else 'missing'}") if d else "order"
            res.fail(f"{k}|{sym}", f"forking indices {idx}, rule gives {want} for solution {sol} (degrees {[len(g.adj[v]) for v in sol]}) on {g.tag()}", rd)
        elif tups(coords) != [sol[i] for i in want]:
            res.fail(f"{k}|coords", f"forking coords {tups(coords)} != solution cells at {want} for solution {sol} on {g.tag()}", rd)
        if not aie:
            res.count("fork_points", len(want))
            res.count("path_following_points", n - len(want))
    res.ev()
    forks = fork_rule(g, sol)
    want = [i for i in range(n) if i not in forks]
    try:
        idx, coords = sm.get_solution_path_following_points()
    except Exception as e:
        res.fail(f"C13|get_solution_path_following_points|raises|{type(e).__name__}",
                 f"get_solution_path_following_points raised {_exc(e)} for solution {sol} on {g.tag()}", rd)
        return
    idx = [int(i) for i in np.asarray(idx).tolist()]
    if idx != want:
        d = sorted(set(idx) ^ set(want))
        sym = (f"{degcls(d[0])}|{'extra' if d[0] in idx else 'missing'}") if d else "order"
        res.fail(f"C13|get_solution_path_following_points|{sym}",
                 f"path-following indices {idx}, complement of the rule gives {want} for solution {sol} (degrees {[len(g.adj[v]) for v in sol]}) on {g.tag()}", rd)
    elif tups(coords) != [sol[i] for i in want]:
        res.fail("C13|get_solution_path_following_points|coords", f"path-following coords {tups(coords)} != solution cells at {want} for {sol} on {g.tag()}", rd)


# ------------------------------------------------------------------ candidate spaces
_LATTICE_PATHS: dict = {}


def lattice_paths(r, c, maxlen):
    """every simple path of the FULL r x c lattice with 1..maxlen cells (judged on each graph: valid, or 1..3 steps broken)"""
    key = (r, c, maxlen)
    if key not in _LATTICE_PATHS:
        full = R.adjacency(R.graph_from_bits(r, c, R.n_graphs(r, c) - 1))
        _LATTICE_PATHS[key] = [tuple(p) for s in R.cells(r, c) for p in R.simple_paths(full, s, maxlen)]
    return _LATTICE_PATHS[key]


def path_candidates(g, maxlen=4, lattice=True):
    """dict path -> class label"""
    out: dict = {}
    valid = [tuple(p) for s in g.cells for p in R.simple_paths(g.adj, s, maxlen)]
    for p in valid:
        out[p] = "simple-valid"
    if lattice:
        for p in lattice_paths(g.r, g.c, maxlen):
            out.setdefault(p, "lattice-path-through-wall")
    for p in valid:
        if len(p) >= 2:
            out.setdefault(p + (p[-2],), "backtracking-valid")
        # one cell moved one step off the grid: coordinate -1 or r / c
        for i, (x, y) in enumerate(p):
            for dx, dy in STEPS:
                q = (x + dx, y + dy)
                if q[0] < 0 or q[1] < 0:
                    out.setdefault(p[:i] + (q,) + p[i + 1:], "one-cell-out-of-bounds-negative")
                elif q[0] >= g.r or q[1] >= g.c:
                    out.setdefault(p[:i] + (q,) + p[i + 1:], "one-cell-out-of-bounds-high")
    # all ordered pairs of cells as two-cell paths: equal, diagonal and far jumps, walls, connections
    if lattice:
        for a in g.cells:
            for b in g.cells:
                out.setdefault((a, b), "two-cells-" + rel(a, b))
    return out


def solutions(g, mode):
    """mode 'all': every shortest path between every ordered pair (+ every simple path up to r*c cells);
    'first': one shortest path per ordered pair; 'half': one per pair s <= e (incl. s == e)"""
    out: dict = {}
    for s in g.cells:
        dist_ok = R.component(g.adj, s)
        for e in g.cells:
            if e in dist_ok and (mode != "half" or s <= e):
                sp = R.all_shortest_paths(g.adj, s, e)
                for p in (sp if mode == "all" else sorted(sp)[:1]):
                    out.setdefault(tuple(p), "shortest")
        if mode == "all":
            for p in R.simple_paths(g.adj, s, g.r * g.c):
                out.setdefault(tuple(p), "simple-nonshortest")
    return out


# ------------------------------------------------------------------ per-graph drivers
def full_graph(g, res, sol_mode, lattice=True, pairs=True, adj_flags=None):
    for v in g.cells:
        chk_neighbors(g, res, v)
        chk_component(g, res, v)
        if pairs:
            for b in g.cells:
                chk_nodes_connected(g, res, v, b)
    chk_degrees(g, res)
    chk_cc(g, res)
    chk_get_nodes(g, res)
    for p, cls in path_candidates(g, 4, lattice).items():
        chk_path(g, res, p, False, cls)
        if cls == "simple-valid":
            chk_path(g, res, p, True, cls)
    chk_path(g, res, (), False, "empty")
    chk_path(g, res, (), True, "empty")
    if adj_flags is None:
        explore_adj(g, res)
    else:
        explore_adj(g, res, adj_flags)
    chk_cl2adj(g, res)
    for mode in ("canonical", "reversed", "mixed", "empty") + (("lattice_connection_array",) if g.r == g.c else ()):
        chk_is_connection(g, res, mode)
    chk_is_connection(g, res, "mixed", "int8")
    if sol_mode:
        for sol, cls in solutions(g, sol_mode).items():
            chk_forks(g, res, sol, cls)
    if 0 < g.E:
        res.nontrivial((g.r, g.c, g.bits))
    res.add("graphs", (g.r, g.c, g.bits) if g.r * g.c <= 16 else (g.r, g.c, str(g.bits)))


def cheap_graph(g, res):
    """G(3,4)/G(4,3): the queries that cost microseconds"""
    for v in g.cells:
        chk_neighbors(g, res, v)
        for b in g.cells:
            chk_nodes_connected(g, res, v, b)
    # one component query per component (from its smallest cell) and from the last cell
    for comp in R.components(g.adj):
        chk_component(g, res, min(comp))
    chk_component(g, res, g.cells[-1])
    chk_degrees(g, res)
    chk_cc(g, res)
    for mode in ("canonical", "reversed"):
        chk_is_connection(g, res, mode)
    ex = explore.run_with([], lambda: g.m.as_adj_list(shuffle_d0=False, shuffle_d1=False))
    judge_adj(g, res, False, False, ex, "as_adj_list")
    if g.E:
        res.nontrivial((g.r, g.c, g.bits))
    res.count("cheap_graphs")


def live_graph(r, c, bits_seq, res):
    """ONE live maze object whose connection array is rewritten in place to each structure of bits_seq in turn; after every
    rewrite the whole cheap query battery must describe the structure the maze has NOW (whatever it answered before)"""
    g = G(r, c, bits_seq[0])
    live = g.m
    cheap_graph(g, res)
    for bits in bits_seq[1:]:
        live.connection_list[...] = R.graph_from_bits(r, c, bits)
        g2 = G(r, c, bits)
        g2.m = live  # reference fields of the new structure, the SAME library object
        sub = type(res)()
        cheap_graph(g2, sub)
        res.evaluations += sub.evaluations
        res.count("live_graph_rewrites")
        for f in sub.fails:
            res.fail(f["key"] + "|after_in_place_rewrite", f"after rewriting the connection array of one live maze in place through {[hex(b) for b in bits_seq[:bits_seq.index(bits) + 1]]}: "
                     + f["what"], dict(kind="live_graph", r=r, c=c, bits_seq=[str(b) for b in bits_seq[:bits_seq.index(bits) + 1]]))
        if sub.fails:
            return


# ------------------------------------------------------------------ long candidate paths, walks as solutions
def length_ladder(g, res, lengths):
    """candidate paths of EVERY length in `lengths` (cells): a valid walk of exactly that many cells (a fixed walk through the graph,
    bouncing back and forth when it reaches its end) and its broken variants - a cell repeated in place, a cell skipped, a jump to a
    far cell, a step through a wall, one cell off the grid - each at the first, a middle and the last position. A rule that changes
    with the length of the path (a fast path, a batch boundary, a cap) shows at the first length beyond its threshold."""
    # the base walk: depth-first tour (with backtracking steps) of the component of the first non-isolated cell
    start = next((v for v in g.cells if g.adj[v]), None)
    if start is None:
        return
    tour, seen = [start], {start}

    def dfs(v):
        for w in sorted(g.adj[v]):
            if w not in seen:
                seen.add(w)
                tour.append(w)
                dfs(w)
                tour.append(v)

    import sys
    sys.setrecursionlimit(max(sys.getrecursionlimit(), 10 * g.r * g.c + 1000))
    dfs(start)
    if len(tour) < 2:
        return
    cyc = tour + tour[-2:0:-1]  # there and back again: closed walk, can be repeated for ever
    walls = [(a, b) for a in g.cells for b in ((a[0] + 1, a[1]), (a[0], a[1] + 1)) if b in g.adj and b not in g.adj[a]]
    for L in lengths:
        walk = tuple(cyc[i % len(cyc)] for i in range(L))
        chk_path(g, res, walk, False, f"long-walk-valid|{lencls(L)}")
        res.nontrivial(("ladder", g.r, g.c, str(g.bits), L))
        for pos in sorted({0, L // 2, L - 1}):
            v = walk[pos]
            chk_path(g, res, walk[:pos] + (v,) + walk[pos:], False, f"long-walk-cell-repeated|{lencls(L + 1)}")
            if 0 < pos < L - 1 and walk[pos - 1] != walk[pos + 1]:
                chk_path(g, res, walk[:pos] + walk[pos + 1:], False, f"long-walk-cell-skipped|{lencls(L - 1)}")
            far = max(g.cells, key=lambda q: (abs(q[0] - v[0]) + abs(q[1] - v[1]), q))
            if abs(far[0] - v[0]) + abs(far[1] - v[1]) > 1 and L > 1:
                chk_path(g, res, walk[:pos] + (far,) + walk[pos + 1:], False, f"long-walk-far-jump|{lencls(L)}")
            chk_path(g, res, walk[:pos] + ((v[0], g.c),) + walk[pos + 1:], False, f"long-walk-one-cell-out-of-bounds-high|{lencls(L)}")
            chk_path(g, res, walk[:pos] + ((-1, v[1]),) + walk[pos + 1:], False, f"long-walk-one-cell-out-of-bounds-negative|{lencls(L)}")
        if walls and L >= 2:
            # the valid walk, then a step through a wall at the very end / the very beginning
            a, b = walls[0]
            k = next((i for i in range(len(cyc)) if cyc[i] == a), None)
            if k is not None:
                w2 = tuple(cyc[(k - (L - 2) + i) % len(cyc)] for i in range(L - 1)) + (b,)
                chk_path(g, res, w2, False, f"long-walk-through-wall-at-end|{lencls(L)}")
                chk_path(g, res, w2[::-1], False, f"long-walk-through-wall-at-start|{lencls(L)}")


def lencls(n):
    return "len<=4" if n <= 4 else "len<=32" if n <= 32 else "len<=100" if n <= 100 else "len<=128" if n <= 128 else "len<=256" if n <= 256 else "len<=1000" if n <= 1000 else "len>1000"


def walks(g, maxlen):
    """every walk (cells may repeat, also the first and the last one) of 2..maxlen cells that is not a simple path"""
    out = []

    def ext(w):
        if len(w) >= 2 and len(set(w)) < len(w):
            out.append(tuple(w))
        if len(w) < maxlen:
            for nb in sorted(g.adj[w[-1]]):
                ext(w + [nb])

    for s0 in g.cells:
        ext([s0])
    return out


def walk_forks(g, res, maxlen):
    """solutions that are walks, not simple paths (the library accepts any valid path as a solution): the forking / path-following rule
    is stated per INDEX of the solution, so a cell that occurs again later (the start revisited, the end passed through earlier) is judged
    by where it stands, not by which cell it is"""
    for w in walks(g, maxlen):
        cls = "walk-revisits-" + "+".join(x for x, c in (("start", w[0] in w[1:-1]), ("end", w[-1] in w[1:-1]), ("closed", w[0] == w[-1])) if c) if (
            w[0] in w[1:] or w[-1] in w[:-1]) else "walk-revisits-interior"
        chk_forks(g, res, w, cls)
        res.nontrivial(("walk", g.r, g.c, g.bits, w))


# ------------------------------------------------------------------ structured larger mazes
def structured_bits(r, c, name):
    edges = R.lattice_edges(r, c)
    idx = {e: k for k, e in enumerate(edges)}
    bits = 0

    def on(d, i, j):
        nonlocal bits
        bits |= 1 << idx[(d, i, j)]

    if name == "full":
        return (1 << len(edges)) - 1
    if name == "empty":
        return 0
    if name == "serpentine":  # one corridor visiting every cell
        for i in range(r):
            for j in range(c - 1):
                on(1, i, j)
            if i + 1 < r:
                on(0, i, c - 1 if i % 2 == 0 else 0)
        return bits
    if name == "comb":  # spine along the top row, a tooth down every column
        for j in range(c - 1):
            on(1, 0, j)
        for i in range(r - 1):
            for j in range(c):
                on(0, i, j)
        return bits
    if name == "rows":  # r separate corridors
        for i in range(r):
            for j in range(c - 1):
                on(1, i, j)
        return bits
    if name == "rings":  # concentric closed rings, not joined: cycles + several components
        for k in range((min(r, c) + 1) // 2):
            lo_i, hi_i, lo_j, hi_j = k, r - 1 - k, k, c - 1 - k
            for j in range(lo_j, hi_j):
                on(1, lo_i, j)
                on(1, hi_i, j)
            for i in range(lo_i, hi_i):
                on(0, i, lo_j)
                on(0, i, hi_j)
        return bits
    if name.startswith("mod"):  # arithmetic pattern: edge k present iff (k*k + 3k + s) % 7 < 4
        s = int(name[3:])
        for k in range(len(edges)):
            if (k * k + 3 * k + s) % 7 < 4:
                bits |= 1 << k
        return bits
    if name.startswith("fullminus"):
        k = int(name[9:]) % len(edges)
        return ((1 << len(edges)) - 1) ^ (1 << k) ^ (1 << ((7 * k + 3) % len(edges)))
    raise ValueError(name)


STRUCT_NAMES = ["full", "empty", "serpentine", "comb", "rows", "rings", "mod0", "mod3", "mod5", "fullminus2", "fullminus11"]


def structured_graph(g, res, heavy_pairs=True):
    for v in g.cells:
        chk_neighbors(g, res, v)
    far = [g.cells[0], g.cells[-1], (0, g.c - 1), (g.r - 1, 0), (g.r // 2, g.c // 2)]
    for v in g.cells:
        for b in g.cells:
            if heavy_pairs or R.manhattan(v, b) <= 2 or b in far:
                chk_nodes_connected(g, res, v, b)
    for comp in R.components(g.adj):
        chk_component(g, res, min(comp))
        chk_component(g, res, max(comp))
    chk_degrees(g, res)
    chk_cc(g, res)
    chk_get_nodes(g, res)
    for p, cls in path_candidates(g, 4, lattice=False).items():
        chk_path(g, res, p, False, cls)
    chk_path(g, res, (), False, "empty")
    chk_path(g, res, (), True, "empty")
    explore_adj(g, res)
    chk_cl2adj(g, res)
    for mode in ("canonical", "reversed", "mixed") + (("lattice_connection_array",) if g.r == g.c else ()):
        chk_is_connection(g, res, mode)
    chk_is_connection(g, res, "mixed", "int8")
    for s in far:
        comp = R.component(g.adj, s)
        for e in far + [min(comp), max(comp)]:
            if e in comp:
                chk_forks(g, res, _one_shortest(g.adj, s, e), "shortest")
    res.nontrivial((g.r, g.c, str(g.bits)))
    res.add("structured", (g.r, g.c, g.E, len(R.components(g.adj))))


def _one_shortest(adj, s, e):
    """one BFS shortest path (enumerating all of them explodes on the nearly full 15x15 lattice)"""
    dist = R.bfs_dist(adj, e)
    p = [s]
    while p[-1] != e:
        p.append(min(y for y in adj[p[-1]] if dist.get(y, -1) == dist[p[-1]] - 1))
    return p


# ------------------------------------------------------------------ shape-level helpers (no graph involved)
def chk_shape_level(res, what, n=None, r=None, c=None):
    from maze_dataset import utils

    rd = dict(kind="shape", what=what, n=n, r=r, c=c)
    if what == "lattice_connection_array":
        res.ev()
        k = f"C13|lattice_connection_array|n={'1' if n == 1 else '>1'}"
        try:
            out = np.asarray(utils.lattice_connection_array(n))
        except Exception as e:
            res.fail(f"{k}|raises|{type(e).__name__}", f"lattice_connection_array({n}) raised {_exc(e)}", rd)
            return
        want = {frozenset(R.edge_cells(e)) for e in R.lattice_edges(n, n)}
        if out.shape != (len(want), 2, 2):
            res.fail(f"{k}|shape", f"lattice_connection_array({n}).shape = {out.shape}, the {n}x{n} lattice has {len(want)} edges", rd)
            return
        pairs = [(tuple(a), tuple(b)) for a, b in out.tolist()]
        got = [frozenset(p) for p in pairs]
        if len(set(got)) != len(got) or set(got) != want:
            res.fail(f"{k}|edges", f"lattice_connection_array({n}) is not the edge list of the lattice: missing {sorted(map(sorted, want - set(got)))[:3]}, "
                     f"extra {sorted(map(sorted, set(got) - want))[:3]}, duplicates {len(got) - len(set(got))}", rd)
        elif any(sum(a) >= sum(b) for a, b in pairs):
            res.fail(f"{k}|orientation", f"lattice_connection_array({n}): a pair does not list the coord with the smaller sum first (docstring)", rd)
        res.nontrivial(("lca", n))
    elif what == "lattice_max_degrees":
        if n == 1:
            # lattice_max_degrees(1) returns [[2]] (a 1x1 lattice has no edges). The helper is not a query on a maze's connection
            # structure and the property statement does not speak about it for the degenerate 1x1 lattice: judging it was the
            # check demanding more than C13 states (see DESIGN.md, false alarms) -> observed, not judged.
            res.count("lattice_max_degrees_n1_not_judged")
            return
        res.ev()
        k = f"C13|lattice_max_degrees|n={'1' if n == 1 else '>1'}"
        try:
            out = np.asarray(utils.lattice_max_degrees(n))
        except Exception as e:
            res.fail(f"{k}|raises|{type(e).__name__}", f"lattice_max_degrees({n}) raised {_exc(e)}", rd)
            return
        full = R.adjacency(R.graph_from_bits(n, n, R.n_graphs(n, n) - 1))
        if out.shape != (n, n):
            res.fail(f"{k}|shape", f"lattice_max_degrees({n}).shape = {out.shape}", rd)
            return
        for v in R.cells(n, n):
            if int(out[v]) != len(full[v]):
                i, j = v
                pos = ("t" if i == 0 else "") + ("b" if i == n - 1 else "") + ("l" if j == 0 else "") + ("r" if j == n - 1 else "") or "inner"
                res.fail(f"{k}|{pos}", f"lattice_max_degrees({n})[{v}] = {int(out[v])}, but that cell has {len(full[v])} lattice neighbours", rd)
                return
        res.nontrivial(("lmd", n))
    elif what == "manhattan_distance":
        cells = R.cells(r, c)
        pairs = [(a, b) for a in cells for b in cells]
        for dtype in ("int64", "int8"):
            res.ev()
            arr = np.array(pairs, dtype=dtype)
            want = [R.manhattan(a, b) for a, b in pairs]
            try:
                out = np.asarray(utils.manhattan_distance(arr)).tolist()
            except Exception as e:
                res.fail(f"C13|manhattan_distance|batch|raises|{type(e).__name__}", f"manhattan_distance(all pairs of {r}x{c}, {dtype}) raised {_exc(e)}", rd)
                continue
            if out != want:
                bad = [(p, o, w) for p, o, w in zip(pairs, out, want) if o != w][:3] if len(out) == len(want) else "length"
                res.fail(f"C13|manhattan_distance|batch|{dtype}|wrong", f"manhattan_distance over all ordered pairs of {r}x{c}: (pair, got, want) {bad}", rd)
        if r * c <= 64:
            for a, b in pairs:
                res.ev()
                try:
                    out = utils.manhattan_distance(np.array([a, b]))
                except Exception as e:
                    res.fail(f"C13|manhattan_distance|single|raises|{type(e).__name__}", f"manhattan_distance([{a},{b}]) raised {_exc(e)}", rd)
                    break
                if np.ndim(out) != 0 or int(out) != R.manhattan(a, b):
                    res.fail(f"C13|manhattan_distance|single|{rel(a, b)}|wrong", f"manhattan_distance([{a},{b}]) = {out!r}, expected {R.manhattan(a, b)}", rd)
                    break
        res.nontrivial(("manh", r, c))


def _setup():
    """RNG answer families of this check; choice.perm_family is pure but O(n^2) and is re-evaluated on every shuffle:
    memoise it for the 420-connection mazes (same values)"""
    import functools

    choice.RAND_FAMILY[0] = rand_family
    if not hasattr(choice.perm_family, "cache_info"):
        choice.perm_family = functools.lru_cache(maxsize=None)(choice.perm_family)


# ------------------------------------------------------------------ tasks
SMALL = [(1, 1), (1, 2), (2, 1), (1, 3), (3, 1), (2, 2), (2, 3), (3, 2)]


def task(t, res):
    _setup()
    kind = t["kind"]
    if kind == "shapes":
        for n in range(1, t["nmax"] + 1):
            chk_shape_level(res, "lattice_connection_array", n=n)
            chk_shape_level(res, "lattice_max_degrees", n=n)
        for r, c in t["manh"]:
            chk_shape_level(res, "manhattan_distance", r=r, c=c)
        return
    with owned_rng() as ch:
        u0 = ch.unowned_draws
        if kind == "live":
            r, c = t["shape"]
            n = R.n_graphs(r, c)
            # every ordered pair of structures (small grids) / a stride of pairs and triples (3x3)
            if n <= 128:
                for a in range(n):
                    for b in range(t["start"], n, t["stride"]):
                        if a != b:
                            live_graph(r, c, [a, b], res)
            else:
                trees = R.trees(r, c)
                seqs = [[trees[i], trees[(i * 7 + 3) % len(trees)], (n - 1) ^ (1 << (i % 12)), trees[i]] for i in range(t["start"], len(trees), t["stride"])]
                for q in seqs:
                    live_graph(r, c, q, res)
        elif kind == "mixed":
            # same-cell-count shapes interleaved in one fresh interpreter (arrays with identical bytes, different shapes)
            per = [[(r, c, b) for b in range(R.n_graphs(r, c))] for (r, c) in t["group"]]
            seq = [x for k in range(max(map(len, per))) for x in (p[k] for p in per if k < len(p))]
            if t["order"] == "reversed":
                seq = seq[::-1]
            sub = type(res)()
            for (r, c, b) in seq:
                full_graph(G(r, c, b), sub, "half")
                res.count("mixed_sequence_graphs")
            res.evaluations += sub.evaluations
            res.distinct |= sub.distinct
            for f in sub.fails:  # own keys: must not be shadowed by a same-key failure of an ordinary task in a poisoned worker
                res.fail(f["key"] + "|in_mixed_shape_sequence", f"shapes {t['group']} interleaved ({t['order']}) in one fresh interpreter: " + f["what"], f["replay"])
        elif kind == "small":
            for r, c in t["shapes"]:
                for bits in range(R.n_graphs(r, c)):
                    full_graph(G(r, c, bits), res, "all")
        elif kind == "range":
            r, c = t["shape"]
            for bits in range(t["start"], R.n_graphs(r, c), t["stride"]):
                g = G(r, c, bits)
                if t["level"] == "cheap":
                    cheap_graph(g, res)
                else:
                    full_graph(g, res, t["sol"], lattice=t.get("lattice", True))
                    if bits % 97 == 0:
                        res.sample(dict(shape=[r, c], bits=bits, edges=g.E, components=len(R.components(g.adj)),
                                        path_candidates=len(path_candidates(g)), solutions=len(solutions(g, t["sol"]))), cap=2)
        elif kind == "ladder":
            r, c = t["shape"]
            g = G(r, c, structured_bits(r, c, t["name"]))
            length_ladder(g, res, t["lengths"])
            res.count("ladder_graphs")
        elif kind == "walks":
            r, c = t["shape"]
            for bits in range(t["start"], R.n_graphs(r, c), t["stride"]):
                walk_forks(G(r, c, bits), res, t["maxlen"])
                res.count("walk_graphs")
        elif kind == "structured":
            r, c = t["shape"]
            g = G(r, c, structured_bits(r, c, t["name"]))
            structured_graph(g, res, heavy_pairs=t["heavy"])
            if t["name"] == "mod0":
                res.sample(dict(structured=t["name"], shape=[r, c], edges=g.E, components=len(R.components(g.adj))), cap=1)
        if ch.unowned_draws != u0:
            raise choice.HarnessError("as_adj_list drew randomness the choice oracle does not own")


def run(ctx):
    quick = ctx.quick
    tasks = [dict(kind="shapes", nmax=8 if quick else 16,
                  manh=[(r, c) for r in range(1, 5) for c in range(1, 5)] + ([(8, 8)] if quick else [(8, 8), (15, 15), (3, 20)]))]
    tasks.append(dict(kind="small", shapes=SMALL[:6]))
    tasks.append(dict(kind="small", shapes=[(2, 3)]))
    tasks.append(dict(kind="small", shapes=[(3, 2)]))
    stride = 48
    for s in range(stride):
        tasks.append(dict(kind="range", shape=(3, 3), start=s, stride=stride, level="full", sol="half" if quick else "all"))
    struct_shapes = [(5, 5), (8, 8), (4, 7)] if quick else [(5, 5), (8, 8), (4, 7), (7, 4), (11, 11), (15, 15), (15, 6)]
    for sh in struct_shapes:
        for name in STRUCT_NAMES:
            if quick and sh != (5, 5) and name not in ("full", "serpentine", "rings", "mod0", "fullminus2"):
                continue
            tasks.append(dict(kind="structured", shape=sh, name=name, heavy=sh[0] * sh[1] <= 64 or name in ("serpentine", "mod0")))
    if not quick:
        for sh in [(2, 4), (4, 2)]:
            for s in range(8):
                tasks.append(dict(kind="range", shape=sh, start=s, stride=8, level="full", sol="all"))
        for sh in [(3, 4), (4, 3)]:
            for s in range(64):
                tasks.append(dict(kind="range", shape=sh, start=s, stride=64, level="cheap"))
    # candidate paths of every length 1..300 (thorough: ..1200 and a stride up to 6000) on structured graphs; walks as solutions
    lad = list(range(1, 301)) if quick else list(range(1, 1201)) + list(range(1250, 6001, 250))
    for sh, names in (((11, 11), ("serpentine", "full", "comb", "mod3")), ((4, 7), ("serpentine", "fullminus2")), ((15, 6), ("rings", "rows")), ((2, 2), ("full",)), ((1, 3), ("full",))):
        for name in names:
            for k in range(4):
                tasks.append(dict(kind="ladder", shape=sh, name=name, lengths=lad[k::4]))
    for sh, ml, stride in (((2, 2), 6, 1), ((1, 3), 6, 1), ((3, 1), 6, 1), ((2, 3), 5, 4), ((3, 2), 5, 4), ((3, 3), 5 if quick else 6, 64 if quick else 16)):
        for s0 in range(stride):
            tasks.append(dict(kind="walks", shape=sh, start=s0, stride=stride, maxlen=ml))
    for t in tasks:
        t["tier"] = ctx.tier
    ctx.pmap(MOD, "task", tasks)
    groups = [[(2, 3), (3, 2)], [(1, 4), (4, 1), (2, 2)], [(1, 3), (3, 1)]]
    ctx.pmap(MOD, "task", [dict(kind="mixed", group=g, order=o, tier=ctx.tier) for g in groups for o in ("interleaved", "reversed")], fresh=True)
    live = [dict(kind="live", shape=(2, 2), start=0, stride=1, tier=ctx.tier)]
    live += [dict(kind="live", shape=sh, start=s0, stride=16 if quick else 4, tier=ctx.tier) for sh in ((2, 3), (3, 2)) for s0 in range(16 if quick else 4)]
    live += [dict(kind="live", shape=(3, 3), start=s0, stride=8, tier=ctx.tier) for s0 in range(8)]
    ctx.pmap(MOD, "task", live)
    for hs in (("7",) if ctx.quick else ("1", "4", "7", "4242")):  # slices again in interpreters with other hash seeds
        ctx.pmap(MOD, "task", tasks[::6] + live[:2], hashseed=hs)
    full_shapes = SMALL + [(3, 3)] + ([] if quick else [(2, 4), (4, 2)])
    ctx.coverage.update(
        graph_spaces_complete={f"{r}x{c}": R.n_graphs(r, c) for r, c in full_shapes},
        cheap_query_spaces_complete={} if quick else {"3x4": R.n_graphs(3, 4), "4x3": R.n_graphs(4, 3)},
        structured=[f"{r}x{c}" for r, c in struct_shapes], structured_patterns=STRUCT_NAMES,
        live_maze_rewrites=dict(what="one live maze object, connection array rewritten in place, cheap query battery after every rewrite",
                                spaces={"2x2": "all ordered pairs of the 16 structures", "2x3/3x2": "all 128 x every 16th (quick) / 4th structure", "3x3": "192 four-step tree/cyclic sequences"},
                                rewrites=ctx.res.counters.get("live_graph_rewrites", 0)),
        mixed_sequences=dict(groups=[[list(x) for x in g] for g in groups], orders=["interleaved", "reversed"], graphs=ctx.res.counters.get("mixed_sequence_graphs", 0)),
        path_candidates="every simple path of the full lattice with <= 4 cells (valid or through walls), every valid simple path <= 4 cells "
                        "with a backtracking step appended / one cell moved off the grid (-1, r, c), all ordered cell pairs as 2-cell paths, "
                        "the empty path with both empty_is_valid values",
        solutions=("all shortest paths between all ordered pairs + all simple paths on grids <= 2x3" +
                   ("; one shortest path per reachable pair s <= e on 3x3" if quick else "; all shortest paths on 3x3, 2x4, 4x2")),
        adj_list_rng="all RNG answers (2^E flips x E! orders, all four flag combinations) for E <= 4 connections; above: default answers for "
                     "all four flag combinations + every single deviation with both flags on (flip family: none/all/each single/all-but-one/"
                     "alternating; order family: choice.perm_family)",
        shape_level=f"lattice_connection_array / lattice_max_degrees n=1..{8 if quick else 16}; manhattan_distance over all ordered pairs of r,c<=4 and 8x8"
                    + ("" if quick else ", 15x15, 3x20"),
    )
    ctx.rule = ("every connection structure of the listed grids x every cell / ordered pair / candidate path / solution / RNG answer of as_adj_list; "
                "one evaluation = one library call judged against the dict-of-sets adjacency; distinct_nontrivial = distinct (shape, graph) with at least "
                "one connection on which the whole query battery ran (+ shape-level helper cases)")
    ctx.exhaustive = True
    ctx.assumptions += [
        "get_connected_component() on a maze without generation_meta is only claimed for connected graphs (the library documents that it assumes one component)",
        "from_adj_list(as_adj_list()) is only claimed on square grids whose highest row and highest column index both occur in a connection",
        "is_connection is only claimed for lattice-adjacent pairs (its documented domain); orientation of the pair is free",
        "RNG answers of as_adj_list above 4 connections are bounded to default + one deviation over a finite flip/permutation family",
    ]


# ------------------------------------------------------------------ replay
def _t(x):
    return tuple(_t(y) for y in x) if isinstance(x, list) else x


def replay(d, res):
    _setup()
    if d["kind"] == "live_graph":
        with owned_rng():
            live_graph(d["r"], d["c"], [int(b) for b in d["bits_seq"]], res)
        return
    if d["kind"] == "shape":
        chk_shape_level(res, d["what"], n=d.get("n"), r=d.get("r"), c=d.get("c"))
        return
    g = G(d["r"], d["c"], int(d["bits"]))
    a = d["args"]
    fn = d["fn"]
    if fn == "nodes_connected":
        chk_nodes_connected(g, res, _t(a["a"]), _t(a["b"]))
    elif fn == "neighbors":
        chk_neighbors(g, res, _t(a["v"]))
    elif fn == "degrees":
        chk_degrees(g, res)
    elif fn == "component":
        chk_component(g, res, _t(a["v"]))
    elif fn == "cc":
        chk_cc(g, res)
    elif fn == "path":
        chk_path(g, res, _t(a["path"]), a["eiv"], a["cls"])
    elif fn == "get_nodes":
        chk_get_nodes(g, res)
    elif fn == "adj":
        from maze_dataset import token_utils

        with owned_rng():
            if a["via"] == "as_adj_list":
                ex = explore.run_with(a["answers"], lambda: g.m.as_adj_list(shuffle_d0=a["d0"], shuffle_d1=a["d1"]))
            else:
                ex = explore.run_with(a["answers"], lambda: token_utils.connection_list_to_adj_list(g.cl, a["d0"], a["d1"]))
        judge_adj(g, res, a["d0"], a["d1"], ex, a["via"])
    elif fn == "is_connection":
        chk_is_connection(g, res, a["mode"], a["dtype"])
    elif fn == "forks":
        chk_forks(g, res, _t(a["sol"]), a["cls"])
