"""C10 Pixel and ASCII renderings are faithful and invertible (DESIGN 5/C10)

Enumerated: every connection structure on the listed small grids x every maze kind (plain, every ordered start/end
pair, every shortest path of every connected pair) x the four (show_endpoints, show_solution) combinations;
a fixed family of structured larger mazes (thorough: up to 12x12).
Oracle: a per-pixel restatement of the property (size, border, cell pixels, in-between pixel <=> connected, posts wall,
colours per flags) -- `expected_image` below, cross-checked against refmodel.raster in `selfcheck`; ASCII == char map of
the picture; reading the full picture / text back == the same kind, bits, start, end, solution in order.
"""
import itertools

import numpy as np

from .. import refmodel as R

MOD = "mzcheck.checks.c10"
NAMES = {R.WALL: "WALL", R.OPEN: "OPEN", R.START: "START", R.END: "END", R.PATH: "PATH"}
FLAGS = ((True, True), (True, False), (False, False), (False, True))


# ------------------------------------------------------------------ reference picture (statement, pixel by pixel)
def expected_image(r, c, adj, kind, start, end, sol, se, ss):
    """kind L/T/S; start/end cells or None; sol list of cells or None. Returns list of rows of RGB tuples."""
    H, W = 2 * r + 1, 2 * c + 1
    path_cells, path_between = set(), set()
    if kind == "S" and ss:
        path_cells = set(sol)
        for a, b in zip(sol[:-1], sol[1:]):
            path_between.add((a[0] + b[0] + 1, a[1] + b[1] + 1))
    img = []
    for y in range(H):
        row = []
        for x in range(W):
            if y == 0 or x == 0 or y == H - 1 or x == W - 1:
                px = R.WALL  # border
            elif y % 2 == 1 and x % 2 == 1:
                cell = (y // 2, x // 2)
                px = R.OPEN
                if cell in path_cells:
                    px = R.PATH
                if kind in "TS" and se:
                    if cell == start:
                        px = R.START
                    if cell == end:
                        px = R.END
            elif y % 2 == 1:  # between (i, j) and (i, j+1)
                a, b = (y // 2, x // 2 - 1), (y // 2, x // 2)
                px = R.OPEN if b in adj[a] else R.WALL
                if (y, x) in path_between:
                    px = R.PATH
            elif x % 2 == 1:  # between (i, j) and (i+1, j)
                a, b = (y // 2 - 1, x // 2), (y // 2, x // 2)
                px = R.OPEN if b in adj[a] else R.WALL
                if (y, x) in path_between:
                    px = R.PATH
            else:
                px = R.WALL  # lattice post
            row.append(px)
        img.append(row)
    return img


def pix_class(y, x, H, W):
    if y == 0 or x == 0 or y == H - 1 or x == W - 1:
        return "border"
    if y % 2 == 1 and x % 2 == 1:
        return "cell"
    if y % 2 == 0 and x % 2 == 0:
        return "post"
    return "between"


def diff_signature(exp, got, alt_cell=None):
    """'' if the library picture equals the expected one, else a short class signature of the differences.
    alt_cell: pixel (y,x) where START is accepted as well as END (start == end)"""
    H, W = len(exp), len(exp[0])
    got = np.asarray(got)
    if got.shape != (H, W, 3):
        return f"size:{tuple(got.shape)}"
    if got.dtype != np.uint8:
        return f"dtype:{got.dtype}"
    if got.tobytes() == np.array(exp, dtype=np.uint8).tobytes():
        return ""
    sig = set()
    for y in range(H):
        for x in range(W):
            g = tuple(int(v) for v in got[y, x])
            if g != exp[y][x]:
                if alt_cell == (y, x) and g == R.START:
                    continue
                sig.add(f"{pix_class(y, x, H, W)}:{NAMES[exp[y][x]]}->{NAMES.get(g, 'other')}")
    return "+".join(sorted(sig))  # the complete set: extra damage on top of a known defect gives a new key


_CODE2CHAR = {(k[0] << 16) | (k[1] << 8) | k[2]: v for k, v in R.ASCII.items()}


def ascii_map(img):
    a = np.asarray(img).astype(np.int64)
    code = ((a[..., 0] << 16) | (a[..., 1] << 8) | a[..., 2]).tolist()
    return "\n".join("".join(_CODE2CHAR.get(v, "?") for v in row) for row in code)


# ------------------------------------------------------------------ building / judging one maze
def build(kind, cl, start, end, sol):
    from maze_dataset.maze import LatticeMaze, SolvedMaze, TargetedLatticeMaze

    if kind == "L":
        return LatticeMaze(connection_list=cl.copy())
    if kind == "T":
        return TargetedLatticeMaze(connection_list=cl.copy(), start_pos=np.array(start), end_pos=np.array(end))
    return SolvedMaze(connection_list=cl.copy(), solution=np.array(sol))


def flagname(se, ss):
    return f"se={int(se)},ss={int(ss)}"


def check_maze(spec, res, adj=None, roundtrip=True):
    """spec = dict(kind, r, c, bits, start, end, sol). Judges the four renderings, both texts and (where claimed) the
    two read-backs of one maze."""
    kind, r, c, bits = spec["kind"], spec["r"], spec["c"], spec["bits"]
    start = tuple(spec["start"]) if spec.get("start") is not None else None
    end = tuple(spec["end"]) if spec.get("end") is not None else None
    sol = [tuple(p) for p in spec["sol"]] if spec.get("sol") is not None else None
    cl = R.graph_from_bits(r, c, bits)
    if adj is None:
        adj = R.adjacency(cl)
    m = build(kind, cl, start, end, sol)
    cls = type(m)
    rd = dict(kind=kind, r=r, c=c, bits=bits, start=start, end=end, sol=sol, roundtrip=roundtrip)
    desc = f"{cls.__name__} {r}x{c} bits={bits} start={start} end={end} solution={sol}"
    same_ends = kind in "TS" and start == end
    alt = (2 * end[0] + 1, 2 * end[1] + 1) if same_ends else None
    res.nontrivial((kind, r, c, bits, start, end, tuple(sol) if sol else None))

    full_img = full_txt = None
    for se, ss in FLAGS:
        fl = flagname(se, ss)
        exp = expected_image(r, c, adj, kind, start, end, sol, se, ss)
        img = None
        res.ev()
        try:
            img = m.as_pixels(show_endpoints=se, show_solution=ss)
        except ValueError as e:
            if (se, ss) == (False, True):
                res.count("rejected_combination")  # documented: show_solution needs show_endpoints
            else:
                res.fail(f"C10|as_pixels|{kind}|{fl}|raises|ValueError", f"as_pixels({fl}) rejected: {e!r} for {desc}", rd)
        except Exception as e:
            res.fail(f"C10|as_pixels|{kind}|{fl}|raises|{type(e).__name__}", f"as_pixels({fl}) raised {e!r} for {desc}", rd)
        if img is not None:
            sig = diff_signature(exp, img, alt)
            if sig:
                res.fail(f"C10|as_pixels|{kind}|{fl}|{sig}",
                         f"as_pixels({fl}) of {desc}: picture differs from the stated one ({sig});\n got:\n{ascii_map(img)}\n expected:\n{R.ascii_of(exp)}", rd)
                img_ok = False
            else:
                img_ok = True
            if (se, ss) == (True, True):
                full_img = img if img_ok and not same_ends else R.raster_array(exp)
        elif (se, ss) == (True, True):
            full_img = R.raster_array(exp)
        # ASCII: same picture character for character (against the library's own picture when there is one)
        res.ev()
        txt = None
        try:
            txt = m.as_ascii(show_endpoints=se, show_solution=ss)
        except ValueError as e:
            if (se, ss) != (False, True):
                res.fail(f"C10|as_ascii|{kind}|{fl}|raises|ValueError", f"as_ascii({fl}) rejected: {e!r} for {desc}", rd)
        except Exception as e:
            res.fail(f"C10|as_ascii|{kind}|{fl}|raises|{type(e).__name__}", f"as_ascii({fl}) raised {e!r} for {desc}", rd)
        if txt is not None:
            want = ascii_map(img) if (img is not None and np.asarray(img).ndim == 3) else R.ascii_of(exp)
            if not isinstance(txt, str) or txt != want:
                ok = False
                if same_ends and isinstance(txt, str) and len(txt) == len(want):
                    # start == end: either letter on that one cell
                    k = alt[0] * (2 * c + 2) + alt[1]
                    ok = txt[:k] == want[:k] and txt[k + 1:] == want[k + 1:] and txt[k] in "SE" and want[k] in "SE"
                if not ok:
                    res.fail(f"C10|as_ascii|{kind}|{fl}|differs_from_picture",
                             f"as_ascii({fl}) of {desc} is not the character map of the picture;\n got:\n{txt}\n expected:\n{want}", rd)
            if (se, ss) == (True, True):
                full_txt = R.ascii_of(exp)
        elif (se, ss) == (True, True):
            full_txt = R.ascii_of(exp)

    # read-back: only claimed for start != end (and shortest solutions, which is all `roundtrip` specs carry)
    if same_ends or not roundtrip:
        return
    for reader, arg in (("from_pixels", full_img), ("from_ascii", full_txt)):
        res.ev()
        before = np.array(arg, copy=True) if reader == "from_pixels" else None
        try:
            m2 = getattr(cls, reader)(arg)
        except Exception as e:
            res.fail(f"C10|{reader}|{kind}|raises|{type(e).__name__}", f"{cls.__name__}.{reader} raised {type(e).__name__}: {str(e)[:200]} for {desc}", rd)
            continue
        bad = readback_diff(m2, cls, kind, cl, start, end, sol)
        if bad:
            res.fail(f"C10|{reader}|{kind}|wrong|{bad}", f"{cls.__name__}.{reader} of the picture of {desc} returned a different maze ({bad}): {describe(m2)}", rd)
        if before is not None:
            # the picture is data: reading it must leave it as it was, and reading the SAME array again must give the same maze
            if not np.array_equal(np.asarray(arg), before):
                res.fail(f"C10|{reader}|{kind}|input_image_modified", f"{cls.__name__}.{reader} changed the image array it was given, for {desc}", rd)
            else:
                try:
                    m3 = getattr(cls, reader)(arg)
                    bad3 = readback_diff(m3, cls, kind, cl, start, end, sol)
                except Exception as e:  # noqa: BLE001
                    bad3 = f"raises-{type(e).__name__}"
                if bad3 and not bad:
                    res.fail(f"C10|{reader}|{kind}|second_read_of_same_array|{bad3}", f"reading the same image array a second time with {cls.__name__}.{reader} gives {bad3}, for {desc}", rd)


def describe(m):
    out = [type(m).__name__]
    for f in ("connection_list", "start_pos", "end_pos", "solution"):
        if hasattr(m, f):
            v = getattr(m, f)
            out.append(f"{f}={np.asarray(v).astype(int).tolist()}")
    return " ".join(out)[:500]


def readback_diff(m2, cls, kind, cl, start, end, sol):
    if type(m2) is not cls:
        return "kind"
    cl2 = np.asarray(m2.connection_list)
    if cl2.shape != cl.shape or cl2.astype(np.bool_).tobytes() != cl.tobytes():
        return "connections"
    if kind in "TS":
        if np.asarray(m2.start_pos).tolist() != list(start):
            return "start"
        if np.asarray(m2.end_pos).tolist() != list(end):
            return "end"
    if kind == "S":
        s2 = [tuple(p) for p in np.asarray(m2.solution).tolist()]
        if s2 != sol:
            return "solution_order" if sorted(s2) == sorted(sol) else "solution_cells"
    return ""


# ------------------------------------------------------------------ enumeration
def kinds_of_graph(r, c, bits, extra_simple=False):
    """every maze over one connection structure: plain; every ordered (start, end) incl. start == end; every
    shortest path of every connected pair; (small grids) every other simple path, rendering only"""
    cl = R.graph_from_bits(r, c, bits)
    adj = R.adjacency(cl)
    cells = R.cells(r, c)
    base = dict(r=r, c=c, bits=bits)
    yield dict(base, kind="L"), adj, True
    for s in cells:
        dist = R.bfs_dist(adj, s)
        for e in cells:
            yield dict(base, kind="T", start=s, end=e), adj, True
            if e in dist:
                sps = R.all_shortest_paths(adj, s, e)
                for p in sps:
                    yield dict(base, kind="S", start=s, end=e, sol=p), adj, True
        if extra_simple:
            for p in R.simple_paths(adj, s, r * c):
                if len(p) - 1 != dist[p[-1]]:
                    yield dict(base, kind="S", start=s, end=p[-1], sol=p), adj, False


def graph_task(t, res):
    r, c = t["shape"]
    for bits in t["bits"]:
        for spec, adj, rt in kinds_of_graph(r, c, bits, t.get("simple", False)):
            check_maze(spec, res, adj, rt)
            res.count("mazes_" + spec["kind"])
            if spec["kind"] == "S" and len(spec["sol"]) >= 4:
                res.sample(spec, cap=1)
            if not rt:
                res.count("non_shortest_render_only")


# structured larger mazes -------------------------------------------------------------------------------------
def _bits_from_edges(r, c, edges):
    idx = {e: k for k, e in enumerate(R.lattice_edges(r, c))}
    b = 0
    for e in edges:
        b |= 1 << idx[e]
    return b


def _edge(a, b):
    (i, j), (k, l) = sorted((a, b))
    return (0, i, j) if k == i + 1 else (1, i, j)


def structured(r, c):
    """name -> bits: serpentines (both orientations), comb, full lattice, full minus a few edges, fixed pseudo-random
    spanning trees and percolation-like graphs (a fixed LCG, part of the family definition -- nothing is sampled at run time)"""
    out = {}
    E = R.lattice_edges(r, c)
    full = (1 << len(E)) - 1
    out["full"] = full
    out["empty"] = 0
    for k in sorted({0, len(E) // 2, len(E) - 1}):
        out[f"full-{k}"] = full & ~(1 << k)
    # row serpentine
    ed = []
    for i in range(r):
        ed += [(1, i, j) for j in range(c - 1)]
        if i + 1 < r:
            ed.append((0, i, c - 1 if i % 2 == 0 else 0))
    out["serp_rows"] = _bits_from_edges(r, c, ed)
    ed = []
    for j in range(c):
        ed += [(0, i, j) for i in range(r - 1)]
        if j + 1 < c:
            ed.append((1, r - 1 if j % 2 == 0 else 0, j))
    out["serp_cols"] = _bits_from_edges(r, c, ed)
    ed = [(1, 0, j) for j in range(c - 1)] + [(0, i, j) for j in range(c) for i in range(r - 1)]
    out["comb"] = _bits_from_edges(r, c, ed)
    for seed in (1, 2, 3):
        state = [seed * 2654435761 % (1 << 32)]

        def nxt(n):
            state[0] = (state[0] * 1103515245 + 12345) % (1 << 31)
            return (state[0] >> 8) % n

        # spanning tree by DFS with LCG-chosen neighbour
        seen, stack, ed = {(0, 0)}, [(0, 0)], []
        while stack:
            i, j = stack[-1]
            nb = [(i + di, j + dj) for di, dj in ((1, 0), (-1, 0), (0, 1), (0, -1))
                  if 0 <= i + di < r and 0 <= j + dj < c and (i + di, j + dj) not in seen]
            if not nb:
                stack.pop()
                continue
            n = nb[nxt(len(nb))]
            ed.append(_edge((i, j), n))
            seen.add(n)
            stack.append(n)
        out[f"tree{seed}"] = _bits_from_edges(r, c, ed)
        tb = out[f"tree{seed}"]
        # tree plus a few extra edges (cycles -> several shortest paths), and a percolation-like graph
        extra = [k for k in range(len(E)) if not (tb >> k) & 1]
        for _ in range(min(3, len(extra))):
            tb |= 1 << extra[nxt(len(extra))]
        out[f"tree{seed}+3"] = tb
        pb = 0
        for k in range(len(E)):
            if nxt(100) < 55:
                pb |= 1 << k
        out[f"perc{seed}"] = pb
    return out


def capped_shortest_paths(adj, s, e, cap):
    """up to `cap` shortest paths: the first cap/2 in ascending and in descending neighbour order"""
    dist = R.bfs_dist(adj, e)
    if s not in dist:
        return []
    out = []
    for rev in (False, True):
        found = []

        def rec(path):
            if len(found) >= (cap + 1) // 2:
                return
            x = path[-1]
            if x == e:
                found.append(list(path))
                return
            for y in sorted(adj[x], reverse=rev):
                if dist.get(y, -1) == dist[x] - 1:
                    path.append(y)
                    rec(path)
                    path.pop()

        rec([s])
        out += found
    uniq = []
    for p in out:
        if p not in uniq:
            uniq.append(p)
    return uniq


def landmark_cells(r, c):
    L = [(0, 0), (0, c - 1), (r - 1, 0), (r - 1, c - 1), (r // 2, c // 2), (0, c // 2), (r // 2, 0), (r - 1, c // 2),
         (r // 2, c - 1), (0, 1 % c), (1 % r, 0)]
    return list(dict.fromkeys(L))


def structured_task(t, res):
    r, c = t["shape"]
    fam = structured(r, c)
    for name in t["names"]:
        bits = fam[name]
        cl = R.graph_from_bits(r, c, bits)
        adj = R.adjacency(cl)
        base = dict(r=r, c=c, bits=bits)
        check_maze(dict(base, kind="L"), res, adj)
        res.count("mazes_L")
        L = landmark_cells(r, c)
        for s, e in itertools.product(L, L):
            check_maze(dict(base, kind="T", start=s, end=e), res, adj)
            res.count("mazes_T")
            for p in capped_shortest_paths(adj, s, e, t["cap"]):
                check_maze(dict(base, kind="S", start=s, end=e, sol=p), res, adj)
                res.count("mazes_S")
                res.add("structured_solution_lengths", len(p))
                if len(p) > 20:
                    res.sample(dict(shape=[r, c], family=name, start=s, end=e, solution_len=len(p)), cap=1)


def selfcheck_task(t, res):
    """the statement-level oracle above and refmodel.raster are two independent drawings; they must agree wherever both
    are defined (full flags). A disagreement is a harness error, not a library violation."""
    for (r, c) in [(1, 1), (1, 3), (2, 2), (2, 3), (3, 2), (3, 3)]:
        n = R.n_graphs(r, c)
        for bits in range(0, n, 1 if n <= 128 else 37):
            cl = R.graph_from_bits(r, c, bits)
            adj = R.adjacency(cl)
            assert expected_image(r, c, adj, "L", None, None, None, True, True) == R.raster(cl), ("selfcheck L", r, c, bits)
            for s in R.cells(r, c):
                for e in R.cells(r, c):
                    assert expected_image(r, c, adj, "T", s, e, None, True, True) == R.raster(cl, s, e), ("selfcheck T", r, c, bits)
                    for p in R.all_shortest_paths(adj, s, e):
                        assert expected_image(r, c, adj, "S", s, e, p, True, True) == R.raster(cl, s, e, p), ("selfcheck S", r, c, bits)
                        res.count("selfcheck_cases")


EXHAUSTIVE_QUICK = [(1, 1), (1, 2), (2, 1), (1, 3), (3, 1), (2, 2), (2, 3), (3, 2)]
EXHAUSTIVE_THOROUGH = EXHAUSTIVE_QUICK + [(3, 3), (2, 4), (4, 2)]
STRUCT_QUICK = [(4, 4), (3, 5), (5, 3), (6, 6), (12, 12), (11, 12), (12, 11)]  # the last three: more than 127 cells, four families each
STRUCT_THOROUGH = [(4, 4), (3, 5), (5, 3), (6, 6), (5, 5), (3, 4), (4, 3), (1, 7), (7, 1), (8, 8), (4, 9), (9, 4), (10, 10), (12, 5), (5, 12), (12, 12)]


# mixed sequences ------------------------------------------------------------------------------------------------
# Inputs that are forced to collide in anything the library might remember between calls: grids with the same number of cells
# but different shapes (their connection arrays can have identical bytes), the same graph as different kinds / with different
# ends. One fresh interpreter renders and reads back the whole interleaved sequence; every element is judged by the same oracle
# as above, so an answer that depends on what was rendered before shows up. Replay re-runs the sequence prefix.
MIXED_GROUPS_QUICK = [[(1, 3), (3, 1)], [(1, 4), (4, 1), (2, 2)], [(2, 3), (3, 2)]]
MIXED_GROUPS_THOROUGH = MIXED_GROUPS_QUICK + [[(2, 4), (4, 2)], [(1, 5), (5, 1)]]


def mixed_sequence(group, order):
    per_shape = []
    for (r, c) in group:
        specs = []
        cells = R.cells(r, c)
        for bits in range(R.n_graphs(r, c)):
            adj = R.adjacency(R.graph_from_bits(r, c, bits))
            base = dict(r=r, c=c, bits=bits)
            specs.append(dict(base, kind="L"))
            specs.append(dict(base, kind="T", start=cells[0], end=cells[-1]))
            specs.append(dict(base, kind="T", start=cells[-1], end=cells[0]))
            dist = R.bfs_dist(adj, cells[0])
            far = max(dist, key=lambda x: (dist[x], x))
            if far != cells[0]:
                specs.append(dict(base, kind="S", start=cells[0], end=far, sol=R.all_shortest_paths(adj, cells[0], far)[0]))
        per_shape.append(specs)
    seq = []
    if order == "interleaved":
        for k in range(max(len(x) for x in per_shape)):
            for specs in per_shape:
                if k < len(specs):
                    seq.append(specs[k])
    elif order == "shape_major":
        for specs in per_shape:
            seq += specs
    else:  # reversed shape-major
        for specs in reversed(per_shape):
            seq += specs
    return seq


def mixed_task(t, res, upto=None):
    from ..runner import Result

    seq = mixed_sequence([tuple(x) for x in t["group"]], t["order"])
    n = len(seq) if upto is None else upto + 1
    for i, spec in enumerate(seq[:n]):
        sub = Result()
        check_maze(spec, sub, None, True)
        res.evaluations += sub.evaluations
        if upto is None:
            res.nontrivial(("mixed", t["order"], i, tuple(map(tuple, t["group"]))))
            res.count("mixed_sequence_elements")
        if upto is not None and i != upto:
            continue
        for f in sub.fails:
            res.fail("C10|mixed_sequence|" + f["key"].split("|", 1)[1], f"as element {i} of the {t['order']} sequence over shapes {t['group']} rendered in one "
                     f"process: " + f["what"], dict(kind_="mixed", group=t["group"], order=t["order"], index=i))
        if upto is None and sub.fails:
            return  # later elements may be poisoned by the same remembered state; one report per sequence is enough


def quick_33_bits():
    """3x3 in the quick tier: every spanning tree, every graph with <= 1 edge missing and every graph with <= 1 edge"""
    E = len(R.lattice_edges(3, 3))
    full = (1 << E) - 1
    out = set(R.trees(3, 3))
    for k in range(2):
        for combo in itertools.combinations(range(E), k):
            b = 0
            for x in combo:
                b |= 1 << x
            out.add(b)
            out.add(full & ~b)
    return sorted(out)


def plan(tier):
    tasks, cov = [], {}
    shapes = EXHAUSTIVE_QUICK if tier == "quick" else EXHAUSTIVE_THOROUGH
    for (r, c) in shapes:
        n = R.n_graphs(r, c)
        bits = list(range(n))
        nchunk = 1 if n <= 16 else (4 if n <= 128 else (24 if n <= 1024 else 96))
        for k in range(nchunk):
            tasks.append(("graph_task", dict(shape=[r, c], bits=bits[k::nchunk], simple=(r * c <= 6))))
        cov[f"G({r},{c})"] = n
    if tier == "quick":
        bits = quick_33_bits()
        for k in range(12):
            tasks.append(("graph_task", dict(shape=[3, 3], bits=bits[k::12], simple=False)))
        cov["G(3,3)_subset(trees, <=1 edge missing, <=1 edge)"] = len(bits)
    for (r, c) in (STRUCT_QUICK if tier == "quick" else STRUCT_THOROUGH):
        names = sorted(structured(r, c))
        if tier == "quick" and r * c > 127:
            names = [n for n in names if n in ("serp_rows", "serp_cols", "comb", "tree2+3")]
        per = 4 if r * c <= 36 else (2 if r * c <= 127 else 1)
        for k in range(0, len(names), per):
            tasks.append(("structured_task", dict(shape=[r, c], names=names[k:k + per], cap=4 if tier == "quick" else 8)))
        cov[f"structured({r},{c})"] = len(names)
    return tasks, cov


def any_task(t, res):
    globals()[t["fn"]](t["arg"], res)


def run(ctx):
    tasks, cov = plan(ctx.tier)
    ctx.pmap(MOD, "selfcheck_task", [dict()])
    ctx.pmap(MOD, "any_task", [dict(fn=fn, arg=arg) for fn, arg in tasks])
    for hs in (("4", "7") if ctx.quick else ("1", "2", "4", "7", "123", "4242")):  # the 2x2 and 1x3 spaces again in interpreters with other hash seeds
        ctx.pmap(MOD, "any_task", [dict(fn="graph_task", arg=dict(shape=[r, c], bits=list(range(R.n_graphs(r, c))), simple=True)) for (r, c) in ((2, 2), (1, 3))], hashseed=hs)
    groups = MIXED_GROUPS_QUICK if ctx.quick else MIXED_GROUPS_THOROUGH
    ctx.pmap(MOD, "mixed_task", [dict(group=g, order=o) for g in groups for o in ("interleaved", "shape_major", "reversed")], fresh=True)
    ctx.coverage.update(
        bounds=cov,
        flag_combinations=[flagname(*f) for f in FLAGS],
        mazes_plain=ctx.res.counters.get("mazes_L", 0),
        mazes_targeted=ctx.res.counters.get("mazes_T", 0),
        mazes_solved=ctx.res.counters.get("mazes_S", 0),
        structured_shapes=STRUCT_QUICK if ctx.quick else STRUCT_THOROUGH,
        mixed_sequences=dict(groups=groups, orders=["interleaved", "shape_major", "reversed"], elements=ctx.res.counters.get("mixed_sequence_elements", 0)),
    )
    ctx.rule = ("every connection structure of the listed grids x {plain, every ordered start/end pair (start == end: rendering only, "
                "either endpoint colour accepted), every shortest path of every connected pair, on <= 6 cells also every other simple path "
                "(rendering only)} x 4 flag combinations x {pixels, ASCII} + read-back of the full picture and text; structured larger "
                "mazes with landmark pairs and up to `cap` shortest paths each; mixed sequences: all graphs of same-cell-count shapes x 4 kinds/ends rendered in one "
                "fresh interpreter in 3 orders. distinct = distinct (kind, shape, bits, start, end, solution)")
    ctx.exhaustive = True
    ctx.assumptions += [
        "(show_endpoints=False, show_solution=True) may be rejected with ValueError (documented); the three other combinations must be accepted",
        "interior lattice posts (even, even pixels) are taken to be wall",
        "ASCII is compared with the character map of the library's own picture for the same flags, so one drawing defect gives one key",
        "read-back is fed the full-flags picture/text (the library's own output when it equals the stated picture)",
        "grids larger than 4x2 / 3x3 are a fixed structured family, not exhaustive",
    ]


def replay(d, res):
    if d.get("kind_") == "mixed":
        mixed_task(dict(group=d["group"], order=d["order"]), res, upto=d["index"])
        return
    spec = dict(kind=d["kind"], r=d["r"], c=d["c"], bits=d["bits"], start=d.get("start"), end=d.get("end"), sol=d.get("sol"))
    check_maze(spec, res, None, d.get("roundtrip", True))
