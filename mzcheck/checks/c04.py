"""C04 Serial dataset generation is a pure function of the configuration (DESIGN 5/C04).

Explicit-state BFS over *histories* of library / RNG use executed before the observation. A state is the snapshot of
every piece of global state generation could consume (python `random`, numpy legacy global, the module-level numpy
Generator, torch RNG, muutils GLOBAL_SEED, the worker-config module global, the process identity that the library
inspects). From every state reached, every observed configuration is generated and its fingerprint must equal the
fingerprint obtained from the initial state (differential oracle), from_config must agree and leave the cfg alone; the
same fingerprints are recomputed in fresh interpreters with several PYTHONHASHSEED values."""
import collections
import json
import os
import random
import subprocess
import sys

import numpy as np

from .. import refmodel as R
from ..runner import digest, VERIF


# ------------------------------------------------------------------ observed configurations
def observed_cfgs(tier):
    """list of (label, kwargs for MazeDatasetConfig)"""
    out = []
    gens = [("gen_dfs", {}), ("gen_dfs", dict(do_forks=False)), ("gen_dfs", dict(accessible_cells=5, max_tree_depth=4)),
            ("gen_prim", {}), ("gen_wilson", {}), ("gen_percolation", dict(p=0.6)), ("gen_dfs_percolation", dict(p=0.3))]
    seeds = [None_default, 0, 7]
    for gi, (g, kw) in enumerate(gens):
        for si, seed in enumerate(seeds):
            if tier == "quick" and (gi + si) % 3 != 0:
                continue
            out.append((f"{g}|{json.dumps(kw, sort_keys=True)}|seed={seed}", dict(gen=g, kw=kw, seed=seed, grid=3 + (gi % 2), n=3)))
    # fractional generator arguments (resolved against the grid size inside the generator, never in the configuration)
    out.append(("gen_dfs|fractional", dict(gen="gen_dfs", kw=dict(accessible_cells=0.5, max_tree_depth=0.75), seed=13, grid=4, n=3)))
    out.append(("gen_dfs_percolation|fractional", dict(gen="gen_dfs_percolation", kw=dict(p=0.2, accessible_cells=0.6), seed=14, grid=3, n=3)))
    # many mazes from a small output space that is not fully connected: the same connection structure recurs (within the dataset and in
    # its neighbours' datasets) with different visited-cell sets - anything remembered per connection structure shows here
    out.append(("gen_dfs|recurring_outputs", dict(gen="gen_dfs", kw=dict(accessible_cells=3), seed=21, grid=3, n=40)))
    out.append(("gen_dfs|recurring_outputs_depth", dict(gen="gen_dfs", kw=dict(max_tree_depth=2), seed=22, grid=3, n=40)))
    out.append(("gen_dfs_percolation|recurring_outputs", dict(gen="gen_dfs_percolation", kw=dict(p=0.05, accessible_cells=3), seed=23, grid=3, n=30)))
    # endpoint options and filters (from_config must apply them in order)
    out.append(("gen_dfs|endpoints", dict(gen="gen_dfs", kw={}, seed=11, grid=4, n=3,
                                          endpoint_kwargs=dict(deadend_start=True, endpoints_not_equal=True))))
    out.append(("gen_dfs|filters", dict(gen="gen_dfs", kw={}, seed=5, grid=3, n=6,
                                        filters=[("path_length", (3,), {}), ("truncate_count", (4,), {})])))
    out.append(("gen_dfs_percolation|filters", dict(gen="gen_dfs_percolation", kw=dict(p=0.2), seed=9, grid=3, n=6,
                                                    filters=[("cut_percentile_shortest", (50.0,), {}), ("remove_duplicates_fast", (), {})])))
    return out


None_default = "default"


def make_cfg(spec, with_filters=True):
    from maze_dataset import MazeDatasetConfig
    from maze_dataset.generation.generators import GENERATORS_MAP

    kw = dict(name="c04", grid_n=spec["grid"], n_mazes=spec["n"], maze_ctor=GENERATORS_MAP[spec["gen"]], maze_ctor_kwargs=dict(spec["kw"]))
    if spec["seed"] != None_default:
        kw["seed"] = spec["seed"]
    if "endpoint_kwargs" in spec:
        kw["endpoint_kwargs"] = dict(spec["endpoint_kwargs"])
    if with_filters and "filters" in spec:
        kw["applied_filters"] = [dict(name=n, args=tuple(a), kwargs=dict(k)) for n, a, k in spec["filters"]]
    return MazeDatasetConfig(**kw)


def fp_dataset(ds):
    return digest([(m.connection_list.shape, m.connection_list.tobytes(), m.solution.tolist()) for m in ds.mazes])


def items_dataset(ds):
    return [(R.bits_of(m.connection_list), [tuple(int(x) for x in c) for c in m.solution], True) for m in ds.mazes]


# ------------------------------------------------------------------ global state snapshot / restore
def _mods():
    import torch

    import maze_dataset.dataset.maze_dataset as MD
    import maze_dataset.generation.generators as GG
    import muutils.mlutils as ML

    return torch, MD, GG, ML


def snapshot():
    import multiprocessing

    torch, MD, GG, ML = _mods()
    return dict(py=random.getstate(), np=np.random.get_state(), gen=GG.numpy_rng.bit_generator.state,
                torch=torch.get_rng_state().clone(), gseed=ML.GLOBAL_SEED,
                wcfg=MD.__dict__.get("_GLOBAL_WORKER_CONFIG", None), ident=tuple(multiprocessing.current_process()._identity),
                thr=MD.SERIALIZE_MINIMAL_THRESHOLD)


def restore(s):
    import multiprocessing

    torch, MD, GG, ML = _mods()
    random.setstate(s["py"])
    np.random.set_state(s["np"])
    GG.numpy_rng.bit_generator.state = s["gen"]
    torch.set_rng_state(s["torch"].clone())
    ML.GLOBAL_SEED = s["gseed"]
    if s["wcfg"] is None:
        MD.__dict__.pop("_GLOBAL_WORKER_CONFIG", None)
    else:
        MD._GLOBAL_WORKER_CONFIG = s["wcfg"]
    multiprocessing.current_process()._identity = tuple(s["ident"])
    MD.SERIALIZE_MINIMAL_THRESHOLD = s["thr"]


def state_key(s):
    w = s["wcfg"]
    return digest((repr(s["py"]), s["np"][1].tobytes(), s["np"][2:], repr(s["gen"]), bytes(s["torch"].numpy().tobytes()), s["gseed"],
                   None if w is None else json.dumps(w.serialize(), sort_keys=True, default=str), s["ident"]))


# ------------------------------------------------------------------ history alphabet
def ops(tier):
    o = ["py_draw", "np_draw", "torch_draw", "gen_draw", "py_seed", "np_seed", "torch_seed", "cfg_new_seed", "generate_B", "from_config_B",
         "tokenize_shuffle", "generate_A0", "ident_child", "ident_child3"]
    return o


def apply_history_op(op, specs):
    import multiprocessing

    import torch

    from maze_dataset import MazeDataset, MazeDatasetConfig

    torch_, MD, GG, ML = _mods()
    if op == "py_draw":
        random.random()
    elif op == "np_draw":
        np.random.rand(3)
    elif op == "torch_draw":
        torch.rand(2)
    elif op == "gen_draw":
        GG.numpy_rng.random(2)
    elif op == "py_seed":
        random.seed(123)
    elif op == "np_seed":
        np.random.seed(123)
    elif op == "torch_seed":
        torch.manual_seed(123)
    elif op == "cfg_new_seed":
        MazeDatasetConfig(name="other", grid_n=5, n_mazes=2, seed=31337)
    elif op == "generate_B":
        MazeDataset.generate(MazeDatasetConfig(name="B", grid_n=5, n_mazes=2, seed=99, maze_ctor=GG.LatticeMazeGenerators.gen_wilson))
    elif op == "from_config_B":
        MazeDataset.from_config(MazeDatasetConfig(name="B2", grid_n=4, n_mazes=3, seed=98, maze_ctor=GG.LatticeMazeGenerators.gen_dfs,
                                                  maze_ctor_kwargs=dict(do_forks=False)), load_local=False, save_local=False, do_download=False)
    elif op == "tokenize_shuffle":
        from maze_dataset.maze import SolvedMaze
        from maze_dataset.tokenization import MazeTokenizerModular

        m = SolvedMaze(connection_list=R.graph_from_bits(3, 3, R.trees(3, 3)[5]), solution=np.array([[0, 0], [0, 1]]))
        m.as_tokens(MazeTokenizerModular())
        m.as_adj_list()
    elif op == "generate_A0":
        MazeDataset.generate(make_cfg(specs[0][1]))
    elif op == "ident_child":
        multiprocessing.current_process()._identity = (1,)
    elif op == "ident_child3":
        multiprocessing.current_process()._identity = (3,)
    else:
        raise KeyError(op)


def env_class(hist):
    """which kind of prior use the history contains (for violation keys)"""
    if any(h.startswith("ident_child") for h in hist):
        return "caller_is_multiprocessing_child"
    if not hist:
        return "fresh"
    return "rng_history"


# ------------------------------------------------------------------ observation
def observe(specs, ref, hist, res, base_state):
    """generate every observed cfg from the *current* state (restored before each), compare with ref fingerprints"""
    from maze_dataset import MazeDataset

    for label, spec in specs:
        restore(base_state)
        res.ev()
        rd = dict(hist=list(hist), label=label, spec=spec)
        cfg = make_cfg(spec, with_filters=False)
        cfg_text = json.dumps(cfg.serialize(), sort_keys=True, default=str)
        kw_before = json.dumps(spec["kw"], sort_keys=True)
        # constructing the cfg is itself part of the observation (it is what a user does); state was restored before it
        try:
            ds = MazeDataset.generate(cfg)
            if json.dumps(cfg.serialize(), sort_keys=True, default=str) != cfg_text or json.dumps(cfg.maze_ctor_kwargs, sort_keys=True) != kw_before:
                res.fail(f"C04|generate|{env_class(hist)}|cfg_modified", f"generate({label}) modified the configuration object passed in: maze_ctor_kwargs "
                         f"{kw_before} -> {json.dumps(cfg.maze_ctor_kwargs, sort_keys=True)}", rd)
        except Exception as e:
            if ref[label].get("raises") == type(e).__name__:
                continue
            res.fail(f"C04|generate|{env_class(hist)}|raised|{type(e).__name__}", f"generate({label}) after history {hist} raised {type(e).__name__}: {str(e)[:150]} "
                     f"(from the initial state: {ref[label]})", rd)
            continue
        if "raises" in ref[label]:
            res.fail(f"C04|generate|{env_class(hist)}|no_longer_raises", f"generate({label}) raised {ref[label]['raises']} from the initial state but returned after {hist}", rd)
            continue
        f = fp_dataset(ds)
        if f != ref[label]["fp"]:
            res.fail(f"C04|generate|{env_class(hist)}|differs", f"generate({label}) after history {hist} differs from the same generation in a fresh state "
                     f"(first maze bits {R.bits_of(ds.mazes[0].connection_list)}, solution {ds.mazes[0].solution.tolist()} vs {ref[label]['first']})", rd)
        res.nontrivial((label, tuple(hist)))


def observe_from_config(specs, ref, hist, res, base_state):
    from maze_dataset import MazeDataset

    from . import c08

    for label, spec in specs:
        if "raises" in ref[label]:
            continue
        restore(base_state)
        res.ev()
        rd = dict(hist=list(hist), label=label, spec=spec, via="from_config")
        cfg = make_cfg(spec, with_filters=True)
        before = json.dumps(cfg.serialize(), sort_keys=True, default=str)
        try:
            ds = MazeDataset.from_config(cfg, load_local=False, save_local=False, do_download=False)
        except Exception as e:
            res.fail(f"C04|from_config|{env_class(hist)}|raised|{type(e).__name__}", f"from_config({label}) after {hist} raised {type(e).__name__}: {str(e)[:150]}", rd)
            continue
        want = ref[label]["items"]
        for op in spec.get("filters", []):
            want = [want[i] for i in c08.ref_apply(want, (op[0], tuple(op[1]), dict(op[2])))]
        got = items_dataset(ds)
        if [(b, p) for b, p, _ in got] != [(b, p) for b, p, _ in want]:
            res.fail(f"C04|from_config|{env_class(hist)}|differs", f"from_config({label}) after {hist}: {len(got)} mazes differ from generate + reference filters "
                     f"({len(want)} mazes)", rd)
        if json.dumps(cfg.serialize(), sort_keys=True, default=str) != before:
            res.fail(f"C04|from_config|{env_class(hist)}|cfg_modified", f"from_config({label}) modified the configuration object passed in", rd)


def reference(specs):
    """fingerprints from the initial state of this process"""
    from maze_dataset import MazeDataset

    base = snapshot()
    ref = {}
    for label, spec in specs:
        restore(base)
        try:
            ds = MazeDataset.generate(make_cfg(spec, with_filters=False))
            ref[label] = dict(fp=fp_dataset(ds), first=(R.bits_of(ds.mazes[0].connection_list), ds.mazes[0].solution.tolist()) if len(ds.mazes) else None,
                              items=items_dataset(ds))
        except ValueError as e:  # documented: percolation may fail to find endpoints; must then fail identically everywhere
            ref[label] = dict(raises=type(e).__name__)
    restore(base)
    return ref, base


# ------------------------------------------------------------------ BFS worker: subtree below one first op
def task(t, res):
    import multiprocessing

    multiprocessing.current_process()._identity = ()
    specs = observed_cfgs(t["tier"])
    ref, base = reference(specs)
    depth = t["depth"]
    alphabet = ops(t["tier"])
    seen = {}
    frontier = collections.deque()
    first = t["first"]  # None = the empty history only
    n_trans = 0

    def visit(hist, state):
        k = state_key(state)
        if k in seen:
            return False
        seen[k] = hist
        observe(specs, ref, hist, res, state)
        if t.get("from_config", True) and len(hist) <= 1:
            observe_from_config(specs, ref, hist, res, state)
        return True

    if first is None:
        visit([], base)
    else:
        restore(base)
        apply_history_op(first, specs)
        s1 = snapshot()
        n_trans += 1
        if visit([first], s1) and depth > 1:
            frontier.append(([first], s1))
    while frontier:
        hist, st = frontier.popleft()
        for op in alphabet:
            restore(st)
            apply_history_op(op, specs)
            s2 = snapshot()
            n_trans += 1
            if visit(hist + [op], s2) and len(hist) + 1 < depth:
                frontier.append((hist + [op], s2))
    restore(base)
    res.count("states", len(seen))
    res.count("transitions", n_trans)
    res.sample(dict(first=first, states=len(seen), a_history=list(seen.values())[-1]), cap=3)
    for label, _ in specs:
        if "fp" in ref[label]:
            res.add("ref_fps", (label, ref[label]["fp"]))


# ------------------------------------------------------------------ fresh interpreters with different hash seeds
CHILD = r"""
import json, sys, warnings
warnings.filterwarnings("ignore")
sys.path.insert(0, sys.argv[1]); sys.path.insert(0, sys.argv[2])
from mzcheck import runner
runner.bind_repo()
from mzcheck.checks import c04
specs = c04.observed_cfgs(sys.argv[3])
ref, _ = c04.reference(specs)
print("FPS " + json.dumps({k: v.get("fp", v.get("raises")) for k, v in ref.items()}, sort_keys=True))
"""


def child_fps(hashseed, tier):
    env = dict(os.environ)
    env["PYTHONHASHSEED"] = str(hashseed)
    repo = os.environ.get("MZ_REPO", "/repo")
    p = subprocess.run([sys.executable, "-c", CHILD, str(VERIF), repo, tier], capture_output=True, text=True, env=env, cwd="/var/tmp")
    for line in p.stdout.splitlines():
        if line.startswith("FPS "):
            return json.loads(line[4:])
    raise RuntimeError(f"child failed: {p.stderr[-800:]}")


def child_task(t, res):
    fps = child_fps(t["hashseed"], t["tier"])
    for k, v in fps.items():
        res.ev()
        res.add("child_fps", (str(t["hashseed"]), k, v))


# ------------------------------------------------------------------ isolation children and neighbour histories
# Hidden state that the snapshot does not know about (a cache added to the library, a module global) would be shared by the
# reference pass and every later observation of one process and so stay invisible to a differential oracle. Two further
# layers close that gap, both in fresh interpreters:
#   iso    each observed configuration is generated ALONE in a fresh interpreter (nothing was generated before it) -> must equal
#          the in-process reference (which generated all configurations one after the other);
#   neigh  for each observed configuration X, every history [op(Y)] / [op(Y), op(X)] with Y a one-field neighbour of X and
#          op in {construct, generate, from_config}, then X is generated and compared with its isolated fingerprint.
CHILD2 = r"""
import json, sys, warnings
warnings.filterwarnings("ignore")
sys.path.insert(0, sys.argv[1]); sys.path.insert(0, sys.argv[2])
from mzcheck import runner
runner.bind_repo()
from mzcheck.checks import c04
job = json.loads(sys.argv[3])
print("OUT " + json.dumps(c04.child2(job), sort_keys=True, default=str))
"""


def neighbours(spec):
    """one-field-different configurations of spec (label suffix, spec)"""
    out = [("seed", dict(spec, seed=(spec["seed"] if spec["seed"] != None_default else 42) + 1)),
           ("n_mazes+1", dict(spec, n=spec["n"] + 1)), ("n_mazes-1", dict(spec, n=spec["n"] - 1)),
           ("grid_n", dict(spec, grid=spec["grid"] + 1)), ("name", dict(spec, name="c04other"))]
    kw = dict(spec["kw"])
    if spec["gen"] in ("gen_dfs", "gen_prim"):
        kw2 = dict(kw, do_forks=not kw.get("do_forks", True)) if "accessible_cells" not in kw else dict(kw, accessible_cells=kw["accessible_cells"] + 1)
        other = "gen_wilson"
    elif spec["gen"] == "gen_wilson":
        kw2, other = None, "gen_dfs"
    else:
        kw2, other = dict(kw, p=round(kw["p"] + 0.2, 3)), None
    if kw2 is not None:
        out.append(("maze_ctor_kwargs", dict(spec, kw=kw2)))
    if other is not None and not kw:
        out.append(("maze_ctor", dict(spec, gen=other)))
    ek = dict(spec.get("endpoint_kwargs", {}))
    out.append(("endpoint_kwargs", dict(spec, endpoint_kwargs=dict(ek, deadend_end=not ek.get("deadend_end", False)))))
    if "filters" in spec:
        out.append(("filters", {k: v for k, v in spec.items() if k != "filters"}))
    else:
        out.append(("filters", dict(spec, filters=[("path_length", (2,), {})])))
    return out


def make_cfg2(spec, with_filters=True):
    cfg = make_cfg(spec, with_filters)
    if "name" in spec:
        cfg.name = spec["name"]
    return cfg


def _run_op(op, spec):
    from maze_dataset import MazeDataset

    try:
        if op == "construct":
            make_cfg2(spec).to_fname()
        elif op == "generate":
            MazeDataset.generate(make_cfg2(spec, with_filters=False))
        elif op == "from_config":
            MazeDataset.from_config(make_cfg2(spec), load_local=False, save_local=False, do_download=False)
    except (ValueError, AssertionError):
        pass  # a neighbour may legitimately fail to generate (documented endpoint errors); it is only history


def neigh_histories(spec):
    H = []
    for fld, y in neighbours(spec):
        for op in ("construct", "generate", "from_config"):
            H.append([(op, fld, y)])
        H.append([("generate", fld, y), ("generate", "self", spec)])
    H.append([("generate", "self", spec)])
    H.append([("from_config", "self", spec)])
    return H


def _fp_or_exc(spec):
    from maze_dataset import MazeDataset

    try:
        ds = MazeDataset.generate(make_cfg(spec, with_filters=False))
        return fp_dataset(ds)
    except ValueError as e:
        return "raises:" + type(e).__name__


def child2(job):
    specs = dict(observed_cfgs(job["tier"]))
    if job["mode"] == "iso":
        return {l: _fp_or_exc(specs[l]) for l in job["labels"]}
    # neigh: this interpreter is pristine (library imported, nothing constructed or generated). Every history runs in its own
    # fork of it, so no history sees what another one left behind (caches, module globals) - isolation at fork cost.
    spec = specs[job["label"]]
    out = []
    hs = neigh_histories(spec)
    for i in job.get("only", range(len(hs))):
        r, w = os.pipe()
        pid = os.fork()
        if pid == 0:
            try:
                os.close(r)
                random.seed(1234)  # the random module re-seeds itself from the OS in a forked child: pin it again
                for op, fld, y in hs[i]:
                    _run_op(op, y)
                msg = json.dumps(dict(i=i, hist=[(op, fld) for op, fld, _ in hs[i]], fp=_fp_or_exc(spec)))
            except BaseException as e:  # noqa: BLE001
                msg = json.dumps(dict(i=i, hist=[(op, fld) for op, fld, _ in hs[i]], fp=f"harness:{type(e).__name__}:{e}"))
            os.write(w, msg.encode())
            os._exit(0)
        os.close(w)
        buf = b""
        while True:
            b = os.read(r, 65536)
            if not b:
                break
            buf += b
        os.close(r)
        os.waitpid(pid, 0)
        out.append(json.loads(buf))
    return out


def run_child2(job, hashseed="0"):
    env = dict(os.environ)
    env["PYTHONHASHSEED"] = hashseed
    repo = os.environ.get("MZ_REPO", "/repo")
    p = subprocess.run([sys.executable, "-c", CHILD2, str(VERIF), repo, json.dumps(job)], capture_output=True, text=True, env=env, cwd="/var/tmp")
    for line in p.stdout.splitlines():
        if line.startswith("OUT "):
            return json.loads(line[4:])
    raise RuntimeError(f"child failed: {p.stderr[-800:]}")


def iso_task(t, res):
    got = run_child2(dict(mode="iso", tier=t["tier"], labels=t["labels"]))
    for l, f in got.items():
        res.ev()
        res.add("iso_fps", (l, "+".join(t["labels"]) if len(t["labels"]) > 1 else "alone", f))


def neigh_task(t, res):
    """all neighbour histories of one observed configuration in one fresh interpreter, judged against its isolated fingerprint"""
    label = t["label"]
    iso = run_child2(dict(mode="iso", tier=t["tier"], labels=[label]))[label]
    out = run_child2(dict(mode="neigh", tier=t["tier"], label=label))
    for k, o in enumerate(out):
        res.ev()
        res.nontrivial(("neigh", label, o["i"]))
        res.count("neighbour_histories")
        if o["fp"].startswith("harness:"):
            raise RuntimeError(o["fp"])
        if o["fp"] != iso:
            fld = "+".join(sorted({f for _, f in o["hist"]}))
            res.fail(f"C04|generate|after_neighbour_config:{fld}|differs", f"generate({label}) after the history {o['hist']} in an otherwise pristine process differs from generating it alone "
                     f"in a fresh interpreter: {o['fp']} vs {iso}", dict(kind="neigh", label=label, i=o["i"], tier=t["tier"]))


# ------------------------------------------------------------------ ladders: sizes, counts and seeds beyond the small scope
# The history layers above use 3x3 / 4x4 grids and a few mazes. A rule that changes with the SIZE of the request (a fast path for large
# grids, a batch boundary, a seed range) is invisible there whatever the history. For every rung of three ladders - grid_n 2..32 (Prim ..16, Wilson
# ..10; thorough ..64 / ..32 / ..20) for every generator, n_mazes 1..40, 64..66, 100..102, 128..130 (thorough also 256..258, 1000..1002), seeds
# around 0, 2^31, 2^32, 2^63 and negative - the configuration is generated, every draw operation of the history alphabet is applied
# (python random, numpy global, torch, the library's own Generator, a shuffling tokenization), it is generated again, reached again through
# from_config without a cache, and compared. A configuration the library refuses to construct (seed out of numpy's range) is not claimed.
LADDER_GENS = [("gen_dfs", {}), ("gen_dfs", dict(do_forks=False)), ("gen_prim", {}), ("gen_wilson", {}), ("gen_percolation", dict(p=0.45)),
               ("gen_dfs_percolation", dict(p=0.25)), ("gen_dfs", dict(accessible_cells=0.7, max_tree_depth=0.6))]
LADDER_SEEDS = [-1, -2 ** 31, 1, 2 ** 31 - 1, 2 ** 31, 2 ** 32 - 1, 2 ** 32, 2 ** 32 + 5, 2 ** 63 - 1, 2 ** 63, 2 ** 64 + 3]


def ladder_rungs(tier):
    quick = tier == "quick"
    out = []
    for gi, (g, kw) in enumerate(LADDER_GENS):
        top = (10 if quick else 20) if g == "gen_wilson" else (16 if quick else 32) if g == "gen_prim" else (32 if quick else 64)
        for n in range(2, top + 1):
            out.append(dict(gen=g, kw=kw, grid=n, n=2, seed=100 + gi))
    counts = list(range(1, 41)) + [64, 65, 66, 100, 101, 102, 128, 129, 130] + ([] if quick else [256, 257, 258, 1000, 1001, 1002])
    for n in counts:
        out.append(dict(gen="gen_dfs", kw={}, grid=3, n=n, seed=7))
        out.append(dict(gen="gen_dfs_percolation", kw=dict(p=0.3), grid=3, n=n, seed=8))
    for sd in LADDER_SEEDS:
        for g, kw in (("gen_dfs", {}), ("gen_wilson", {}), ("gen_percolation", dict(p=0.5))):
            out.append(dict(gen=g, kw=kw, grid=4, n=3, seed=sd))
    return out


def _bucket(v, marks):
    return next((f"<={m}" for m in marks if v <= m), f">{marks[-1]}")


def ladder_one(sp, res):
    from maze_dataset import MazeDataset

    res.ev()
    what = f"{sp['gen']}{json.dumps(sp['kw'], sort_keys=True)} grid_n={sp['grid']} n_mazes={sp['n']} seed={sp['seed']}"
    cls = f"{sp['gen']}|grid{_bucket(sp['grid'], (4, 8, 16, 27, 40))}|n{_bucket(sp['n'], (8, 64, 100, 128, 256, 1000))}|seed{_bucket(sp['seed'], (-1, 2 ** 31 - 1, 2 ** 32 - 1, 2 ** 63 - 1))}"
    rd = dict(kind="ladder", spec=sp)
    try:
        cfg = make_cfg(sp)
    except Exception as e:  # noqa: BLE001
        res.count("ladder_configs_refused_at_construction")
        return
    def outcome(fn):
        # a documented refusal (e.g. percolation leaving the start cell isolated: ValueError from the endpoint draw) is an outcome like any
        # other: the claim is that it is the SAME outcome every time
        try:
            return fp_dataset(fn())
        except Exception as e:  # noqa: BLE001
            return f"raises:{type(e).__name__}:{str(e)[:80]}"

    a = outcome(lambda: MazeDataset.generate(make_cfg(sp), gen_parallel=False))
    for op in ("py_draw", "np_draw", "torch_draw", "gen_draw", "tokenize_shuffle"):
        apply_history_op(op, None)
    b = outcome(lambda: MazeDataset.generate(make_cfg(sp), gen_parallel=False))
    apply_history_op("np_draw", None)
    apply_history_op("gen_draw", None)
    c = outcome(lambda: MazeDataset.from_config(cfg, load_local=False, save_local=False, do_download=False, gen_parallel=False))
    if not a.startswith("raises:"):
        res.nontrivial(("ladder", sp["gen"], json.dumps(sp["kw"], sort_keys=True), sp["grid"], sp["n"], sp["seed"]))
    else:
        res.count("ladder_rungs_with_documented_refusal")
    if a != b:
        res.fail(f"C04|ladder|{cls}|second_generation_differs", f"{what}: generated twice in one process, with draws from python random, the numpy global RNG, torch, the library's "
                 f"Generator and a shuffling tokenization in between: {a} vs {b}", rd)
    elif c != a:
        res.fail(f"C04|ladder|{cls}|from_config_differs", f"{what}: from_config without a cache gives {c}, generate gave {a}", rd)


def ladder_task(t, res):
    R_ = ladder_rungs(t["tier"])
    for sp in R_[t["start"]::t["stride"]]:
        ladder_one(sp, res)
        res.count("ladder_rungs")


def replay_neigh(d, res):
    label = d["label"]
    iso = run_child2(dict(mode="iso", tier=d["tier"], labels=[label]))[label]
    for only in ([d["i"]],):
        out = run_child2(dict(mode="neigh", tier=d["tier"], label=label, only=only))
        if out[-1]["fp"] != iso:
            fld = "+".join(sorted({f for _, f in out[-1]["hist"]}))
            res.fail(f"C04|generate|after_neighbour_config:{fld}|differs", f"{label}: histories {only}: {out[-1]['fp']} vs alone {iso}", d)
            return


def run(ctx):
    depth = 2 if ctx.quick else 3
    tasks = [dict(first=None, depth=depth, tier=ctx.tier)] + [dict(first=o, depth=depth, tier=ctx.tier) for o in ops(ctx.tier)]
    ctx.pmap("mzcheck.checks.c04", "task", tasks)
    hs = ["0", "1", "2", "4242", "random"]
    ctx.pmap("mzcheck.checks.c04", "child_task", [dict(hashseed=h, tier=ctx.tier) for h in hs])
    labels = [l for l, _ in observed_cfgs(ctx.tier)]
    ctx.pmap("mzcheck.checks.c04", "iso_task", [dict(tier=ctx.tier, labels=[l]) for l in labels] + [dict(tier=ctx.tier, labels=labels[::-1])])
    ctx.pmap("mzcheck.checks.c04", "neigh_task", [dict(tier=ctx.tier, label=l) for l in labels])
    ctx.pmap("mzcheck.checks.c04", "ladder_task", [dict(tier=ctx.tier, start=k, stride=48) for k in range(48)])
    ref = dict(ctx.res.sets.get("ref_fps", ()))
    raises = {l for l in labels if l not in ref}
    for l, how, f in sorted(ctx.res.sets.get("iso_fps", ())):
        want = ref.get(l, None)
        if (want is None and not f.startswith("raises:")) or (want is not None and f != want):
            ctx.res.fail("C04|generate|order_of_generation|differs", f"generate({l}) generated {how} in a fresh interpreter gives {f}, but {want} when generated after the "
                         f"other observed configurations in one process", dict(kind="iso", label=l, tier=ctx.tier))
    by = collections.defaultdict(dict)
    for h, k, v in ctx.res.sets.get("child_fps", ()):
        by[k][h] = v
    for k, d in sorted(by.items()):
        vals = set(d.values()) | ({ref[k]} if k in ref else set())
        if len(vals) > 1:
            ctx.res.fail("C04|generate|other_process|differs", f"generate({k}) gives different mazes in fresh interpreters with PYTHONHASHSEED {d} vs in-process {ref.get(k)}",
                         dict(kind="children", label=k))
    c = ctx.res.counters
    ctx.coverage.update(states=c.get("states", 0), transitions=c.get("transitions", 0),
                        traces_validated_against_impl=ctx.res.evaluations, depth=depth, history_ops=ops(ctx.tier),
                        observed_configs=[l for l, _ in observed_cfgs(ctx.tier)], hashseeds=hs,
                        isolated_children=len(labels) + 1, neighbour_histories=c.get("neighbour_histories", 0),
                        neighbour_fields=sorted({f for _, sp in observed_cfgs(ctx.tier) for f, _ in neighbours(sp)}))
    ctx.rule = ("BFS over histories (alphabet of RNG draws / re-seeds / other generations / config constructions / tokenisations / caller being a "
                "multiprocessing child) up to the depth, states de-duplicated by a digest of all global RNG + module state; in every state every observed "
                "configuration is generated and compared with the fingerprint from the initial state; every observed configuration is also generated alone in a "
                "fresh interpreter and after every history [op(Y)], [generate(Y), generate(X)] over its one-field neighbours Y x op in {construct, generate, from_config}; "
                "distinct = (configuration, history) pairs")
    ctx.exhaustive = True
    ctx.assumptions += ["global state = python random, numpy legacy global, numpy_rng Generator, torch RNG, GLOBAL_SEED, worker-config global, process identity"]


def replay(d, res):
    import multiprocessing

    if d.get("kind") == "neigh":
        return replay_neigh(d, res)
    if d.get("kind") == "ladder":
        return ladder_one(d["spec"], res)
    if d.get("kind") == "iso":
        labels = [l for l, _ in observed_cfgs(d["tier"])]
        alone = run_child2(dict(mode="iso", tier=d["tier"], labels=[d["label"]]))[d["label"]]
        rev = run_child2(dict(mode="iso", tier=d["tier"], labels=labels[::-1]))[d["label"]]
        fwd = run_child2(dict(mode="iso", tier=d["tier"], labels=labels))[d["label"]]
        if len({alone, rev, fwd}) > 1:
            res.fail("C04|generate|order_of_generation|differs", f"{d['label']}: alone {alone}, after the others {fwd}, reversed order {rev}", d)
        return
    if d.get("kind") == "children":
        tier = "quick"
        vals = {}
        for h in ("0", "1", "random"):
            vals[h] = child_fps(h, tier).get(d["label"])
        if len(set(vals.values())) > 1:
            res.fail("C04|generate|other_process|differs", f"{d['label']}: {vals}", d)
        return
    multiprocessing.current_process()._identity = ()
    spec = d["spec"]
    specs = [(d["label"], spec)]
    allspecs = observed_cfgs("quick")
    ref, base = reference(specs)
    for op in d["hist"]:
        apply_history_op(op, allspecs)
    st = snapshot()
    if d.get("via") == "from_config":
        observe_from_config(specs, ref, d["hist"], res, st)
    else:
        observe(specs, ref, d["hist"], res, st)
    restore(base)
