"""C15, histories of use on live tokenizer objects.

"Distinct tokenizers have distinct names and distinct stable hashes, equal tokenizers have equal ones in every process, and saving
then loading any tokenizer returns an equal tokenizer with the same name" - whatever the tokenizer (or a tokenizer sharing element
objects with it) was used for before. Every sequence (up to a depth) over
    uses          tokenize an untargeted / targeted / solved maze with this tokenizer, or with ANOTHER tokenizer built from the same
                  element objects (shared instances), decode / encode a token list
    observations  name, hash, hash_int, hash_b64, serialize, is_valid, == twin, load(serialize())
is run on a tokenizer built from brand-new element objects; every observation is compared with a never-used twin built the same
way (differential oracle: state reached through use vs the pristine state)."""
import itertools
import json

import numpy as np

from .. import refmodel as R
from ..choice import owned_rng
from .. import explore

USES = ["use_L", "use_T", "use_S", "use_S_shared", "encode_decode"]
OBS = ["name", "hash", "hash_int", "hash_b64", "serialize", "is_valid", "eq_twin", "save_load"]
ALPHABET = USES + OBS


def fps():
    from . import c06

    F = c06.covering_full()
    return F


def build_fresh(fp):
    """a MazeTokenizerModular from brand-new element objects (nothing shared with any other tokenizer)"""
    from maze_dataset.tokenization import (AdjListTokenizers, CoordTokenizers, EdgeGroupings, EdgePermuters, EdgeSubsets, MazeTokenizerModular,
                                           PathTokenizers, PromptSequencers, StepSizes, StepTokenizers, TargetTokenizers)

    c = fp["coord"]
    coord = CoordTokenizers.UT() if c["cls"] == "UT" else CoordTokenizers.CTT(pre=c["pre"], intra=c["intra"], post=c["post"])
    a = fp["adj"]
    subset = EdgeSubsets.AllLatticeEdges() if a["subset"] == "all" else EdgeSubsets.ConnectionEdges(walls=a["subset"] == "walls")
    adj = getattr(AdjListTokenizers, a["cls"])(pre=False, post=a["post"], shuffle_d0=a["shuffle_d0"],
                                               edge_grouping=EdgeGroupings.Ungrouped(connection_token_ordinal=a["ordinal"]),
                                               edge_subset=subset, edge_permuter=getattr(EdgePermuters, a["permuter"])())
    p = fp["path"]
    path = PathTokenizers.StepSequence(step_size=getattr(StepSizes, p["size"])(), step_tokenizers=tuple(getattr(StepTokenizers, n)() for n in p["toks"]),
                                       pre=p["pre"], intra=p["intra"], post=p["post"])
    kw = dict(coord_tokenizer=coord, adj_list_tokenizer=adj, path_tokenizer=path)
    if fp["seq"] == "AOTP":
        seq = PromptSequencers.AOTP(target_tokenizer=TargetTokenizers.Unlabeled(post=fp["target"]["post"]), **kw)
    else:
        seq = PromptSequencers.AOP(**kw)
    return MazeTokenizerModular(prompt_sequencer=seq), kw


def mazes():
    from maze_dataset.maze import LatticeMaze, SolvedMaze, TargetedLatticeMaze

    cl = R.graph_from_bits(3, 3, R.trees(3, 3)[17])
    adj = R.adjacency(cl)
    sol = R.all_shortest_paths(adj, (0, 0), (2, 2))[0]
    return dict(L=LatticeMaze(connection_list=cl.copy()), T=TargetedLatticeMaze(connection_list=cl.copy(), start_pos=np.array((0, 0)), end_pos=np.array((2, 2))),
                S=SolvedMaze(connection_list=cl.copy(), solution=np.array(sol)))


def observe(t, twin, op):
    """None or a description of how the used tokenizer differs from its never-used twin"""
    from maze_dataset.tokenization import MazeTokenizerModular

    if op == "name":
        return None if t.name == twin.name else f"name {t.name!r} vs never-used twin {twin.name!r}"
    if op == "hash":
        return None if hash(t) == hash(twin) else f"hash {hash(t)} vs twin {hash(twin)}"
    if op == "hash_int":
        return None if t.hash_int() == twin.hash_int() else f"hash_int {t.hash_int()} vs twin {twin.hash_int()}"
    if op == "hash_b64":
        return None if t.hash_b64() == twin.hash_b64() else f"hash_b64 {t.hash_b64()} vs twin {twin.hash_b64()}"
    if op == "serialize":
        a, b = json.dumps(t.serialize(), sort_keys=True, default=str), json.dumps(twin.serialize(), sort_keys=True, default=str)
        return None if a == b else "serialize() differs from the never-used twin"
    if op == "is_valid":
        return None if t.is_valid() is True and twin.is_valid() is True else f"is_valid {t.is_valid()} (twin {twin.is_valid()})"
    if op == "eq_twin":
        return None if (t == twin) is True and (twin == t) is True else "the used tokenizer no longer equals its never-used twin"
    if op == "save_load":
        back = MazeTokenizerModular.load(t.serialize())
        if not (back == t) or back.name != t.name or hash(back) != hash(t):
            return f"load(serialize()) gives name {back.name!r} / hash {hash(back)}; the tokenizer itself says {t.name!r} / {hash(t)}; equal: {back == t}"
        return None
    raise KeyError(op)


def use(t, kw, fp, op, M):
    from maze_dataset.tokenization import MazeTokenizerModular, PromptSequencers, TargetTokenizers

    with owned_rng():
        if op in ("use_L", "use_T", "use_S"):
            explore.run_with([], lambda: t.to_tokens(M[op[-1]]))
        elif op == "use_S_shared":
            # another tokenizer object around the SAME element objects
            if fp["seq"] == "AOTP":
                seq = PromptSequencers.AOTP(target_tokenizer=TargetTokenizers.Unlabeled(post=not fp["target"]["post"]), **kw)
            else:
                seq = PromptSequencers.AOTP(target_tokenizer=TargetTokenizers.Unlabeled(post=False), **kw)
            other = MazeTokenizerModular(prompt_sequencer=seq)
            explore.run_with([], lambda: other.to_tokens(M["S"]))
        elif op == "encode_decode":
            toks = explore.run_with([], lambda: t.to_tokens(M["S"])).out
            if toks is not None:
                t.decode(t.encode(toks))
        else:
            raise KeyError(op)


def run_history(fi, seq, res, only_last=False):
    fp = fps()[fi]
    t, kw = build_fresh(fp)
    twin, _ = build_fresh(fp)
    M = mazes()
    for k, op in enumerate(seq):
        if op in USES:
            try:
                use(t, kw, fp, op, M)
            except Exception:  # noqa: BLE001 - tokenization failures are C06's business; here they are only history
                pass
            continue
        if not only_last:
            res.ev()
        try:
            bad = observe(t, twin, op)
        except Exception as e:  # noqa: BLE001
            bad = f"raised {type(e).__name__}: {str(e)[:150]}"
        if bad and (not only_last or k == len(seq) - 1):
            used = [o for o in seq[:k] if o in USES]
            res.fail(f"C15|history|{op}|after_{'+'.join(sorted(set(used))) or 'no_use'}", f"tokenizer {twin.name} after the call sequence {list(seq[:k + 1])}: {bad}",
                     dict(kind="history", fi=fi, seq=list(seq[:k + 1])))
            return False
    return True


def history_task(t, res):
    n = 0
    for fi in t["fis"]:
        for d in range(1, t["depth"] + 1):
            for seq in itertools.product(ALPHABET, repeat=d):
                if not any(o in USES for o in seq):
                    continue  # never used: the enumeration obligations of c15
                full = list(seq) + ["name", "hash", "serialize", "eq_twin", "save_load"]
                if run_history(fi, full, res):
                    res.nontrivial(("hist", fi, seq))
                n += 1
    res.count("use_histories", n)
    res.sample(dict(layer="use history", tokenizer=build_fresh(fps()[t["fis"][0]])[0].name, example=["use_S", "name", "hash", "serialize", "eq_twin", "save_load"]), cap=1)


def replay(d, res):
    run_history(d["fi"], list(d["seq"]), res, only_last=True)
