"""C15 Tokenizer configuration space is enumerated exactly and identified uniquely (DESIGN 5/C15).

What is enumerated (always completely, on the real `all_instances` / `get_all_tokenizers` code):
* every abstract element family with the default validation functions (element census);
* *slices* of the tokenizer space: `all_instances(MazeTokenizerModular, {**DEFAULT_VALIDATION_FUNCS, pins})`, where a pin is
  an extra validation function on an element family that still calls `is_valid` and then restricts the family
  (a) to a residue class of crc32(params) - a *partition* of whatever the library produces (used for the full-space
  census: 12 x 6 slices over adjacency-list x path tokenizers), or (b) to an explicit box (stars = everything that
  differs in one top-level element from the two legacy tokenizers and from a far corner; boxes with 3..8 free axes and
  all other axes pinned at rotating corners);
* the same slice in child interpreters with PYTHONHASHSEED in {0,1,2,4242,random};
* thorough: additionally the un-sliced real `get_all_tokenizers()` in one process.

Depth of judgement per slice (`level`): S_STRUCT configuration multiset and count; S_NAMES + names / hashes distinct, an
independently constructed equal tokenizer agrees, is_legacy_equivalent; S_LOAD + load(serialize()); S_ZANJ + ZANJ file.
quick: census S_STRUCT (all 5,878,656), stars/boxes S_NAMES..S_ZANJ.  thorough: census S_NAMES (all), 6 census slices S_LOAD.

A tokenizer is identified by its *configuration* `params_of_tok(t)`: class names and field values read off the object
(`vars`), never by its name/hash/== (those are what the property is about).  The reference model is the explicit
cartesian product of the parameter domains in SPEC filtered by the documented validity rules in `rule_ok`.
"""
import base64
import gc
import hashlib
import itertools
import json
import os
import shutil
import subprocess
import sys
import tempfile
import zlib

from ..runner import digest

MOD = "mzcheck.checks.c15"
P61 = (1 << 61) - 1
M64 = (1 << 64) - 1

# ------------------------------------------------------------------------------------------------ reference model
BOOL = ("True", "False")  # leaves are kept as repr() strings so that True and 1 can never be confused
SPEC = {  # family -> [(class name, ((field, domain), ...) in declaration order)]; "@x" = any valid value of family x
    "coord": [("UT", ()), ("CTT", (("pre", BOOL), ("intra", BOOL), ("post", BOOL)))],
    "grouping": [("Ungrouped", (("connection_token_ordinal", ("0", "1", "2")),)),
                 ("ByLeadingCoord", (("intra", BOOL), ("shuffle_group", BOOL), ("connection_token_ordinal", ("0", "1"))))],
    "permuter": [("SortedCoords", ()), ("RandomCoords", ()), ("BothCoords", ())],
    "subset": [("AllLatticeEdges", ()), ("ConnectionEdges", (("walls", BOOL),))],
    "adj": [(c, (("pre", BOOL), ("post", BOOL), ("shuffle_d0", BOOL), ("edge_grouping", "@grouping"),
                 ("edge_subset", "@subset"), ("edge_permuter", "@permuter"))) for c in ("AdjListCoord", "AdjListCardinal")],
    "target": [("Unlabeled", (("post", BOOL),))],
    "step_size": [("Singles", ()), ("Straightaways", ()), ("Forks", ()), ("ForksAndStraightaways", ())],
    "step_tok": [("Coord", ()), ("Cardinal", ()), ("Relative", ()), ("Distance", ())],
    "path": [("StepSequence", (("step_size", "@step_size"), ("step_tokenizers", "@perm"), ("pre", BOOL), ("intra", BOOL),
                               ("post", BOOL)))],
    "seq": [("AOTP", (("coord_tokenizer", "@coord"), ("adj_list_tokenizer", "@adj"), ("target_tokenizer", "@target"),
                      ("path_tokenizer", "@path"))),
            ("AOP", (("coord_tokenizer", "@coord"), ("adj_list_tokenizer", "@adj"), ("path_tokenizer", "@path")))],
}
NAMESPACE = dict(coord="CoordTokenizers", grouping="EdgeGroupings", permuter="EdgePermuters", subset="EdgeSubsets",
                 adj="AdjListTokenizers", target="TargetTokenizers", step_size="StepSizes", step_tok="StepTokenizers",
                 path="PathTokenizers", seq="PromptSequencers")
BASE = dict(coord="_CoordTokenizer", grouping="_EdgeGrouping", permuter="_EdgePermuter", subset="_EdgeSubset",
            adj="_AdjListTokenizer", target="_TargetTokenizer", step_size="_StepSize", step_tok="_StepTokenizer",
            path="_PathTokenizer", seq="_PromptSequencer")
ELEMENT_FAMILIES = ("coord", "grouping", "permuter", "subset", "adj", "target", "step_size", "step_tok", "path")
UNSUPPORTED = ("ByLeadingCoord", "Straightaways", "ForksAndStraightaways")  # @mark_as_unsupported(lambda self_: False)
FIELD_ORDER = {c: tuple(k for k, _ in f) for fam in SPEC.values() for c, f in fam}
FAMILY_OF_CLASS = {c: fam for fam, cl in SPEC.items() for c, _ in cl}
SEEDS = ("0", "1", "2", "4242", "random")


def perm_ok(perm):
    """documented rule for step_tokenizers: no repeated element, and not `Distance` alone"""
    return len(set(perm)) == len(perm) and perm != (("Distance", ()),)


def rule_ok(cls, f):
    """the documented validity rule of one element class (nested elements are drawn from valid values only)"""
    if cls in UNSUPPORTED:
        return False
    if cls in ("AdjListCoord", "AdjListCardinal"):
        return f["pre"] == "False"  # @mark_as_unsupported(lambda self_: self_.pre is False)
    if cls == "StepSequence":
        return perm_ok(f["step_tokenizers"])
    return True


_FV = {}


def family_values(fam):
    """all valid values of an element family: explicit product of the field domains filtered by rule_ok"""
    if fam in _FV:
        return _FV[fam]
    if fam == "perm":
        st = family_values("step_tok")
        out = [p for k in (1, 2, 3, 4) for p in itertools.product(st, repeat=k) if perm_ok(p)]
    else:
        out = []
        for cls, fields in SPEC[fam]:
            doms = [family_values(d[1:]) if isinstance(d, str) else d for _, d in fields]
            for combo in itertools.product(*doms):
                f = dict(zip((k for k, _ in fields), combo))
                if rule_ok(cls, f):
                    out.append((cls, tuple(sorted(f.items()))))
    _FV[fam] = out
    return out


def predicted_sizes():
    """sizes predicted arithmetically from the parameter space (no enumeration)"""
    s = dict(coord=1 + 2 ** 3, grouping=3 + 0 * (2 * 2 * 2), permuter=3, subset=1 + 2, target=2, step_size=4 - 2, step_tok=4)
    s["adj"] = 2 * 1 * 2 * 2 * s["grouping"] * s["subset"] * s["permuter"]  # pre is forced to False
    s["perm"] = 4 + 4 * 3 + 4 * 3 * 2 + 4 * 3 * 2 * 1 - 1  # arrangements of 1..4 distinct of 4, minus (Distance,)
    s["path"] = 1 * s["step_size"] * s["perm"] * 2 ** 3
    s["AOTP"] = s["coord"] * s["adj"] * s["target"] * s["path"]
    s["AOP"] = s["coord"] * s["adj"] * s["path"]
    s["tokenizers"] = s["AOTP"] + s["AOP"]
    return s


def fields_of(p):
    return dict(p[1])


def elem_name(p):
    """reference rendering of a name (string formatting over the parameter tuple); informational, see run()"""
    cls, fd = p[0], dict(p[1])
    parts = []
    for k in FIELD_ORDER[cls]:
        v = fd[k]
        if isinstance(v, str):
            parts.append(f"{k}={v[0]}" if v in BOOL else f"{k}={v}")
        elif v and isinstance(v[0], tuple):
            parts.append(f"{k}=(" + "".join(elem_name(x) + ", " for x in v) + ")")
        else:
            parts.append(elem_name(v))
    return f"{cls}({', '.join(parts)})"


def ref_name(p):
    return "MazeTokenizerModular-" + elem_name(p)


def ref_hashes(name):
    """(hash(tok), tok.hash_b64()) as functions of the name that use nothing seeded"""
    n = int.from_bytes(hashlib.blake2b(name.encode("utf-8")).digest(), "big")
    b64 = base64.b64encode((n % (1 << 64)).to_bytes(8, "big"), altchars=b"-_").decode().rstrip("=")
    return n % P61, b64


def cfg_digest(p):
    return digest(repr(p))


def crc(p):
    return zlib.crc32(repr(p).encode())


def mk(cls, **f):
    return (cls, tuple(sorted(f.items())))


def anchor(which):
    """the two legacy-equivalent configurations (as documented for from_legacy) and a far corner"""
    adj = mk("AdjListCoord", pre="False", post="True", shuffle_d0="True", edge_grouping=mk("Ungrouped", connection_token_ordinal="1"),
             edge_subset=mk("ConnectionEdges", walls="False"), edge_permuter=mk("RandomCoords"))
    path = mk("StepSequence", step_size=mk("Singles"), step_tokenizers=(mk("Coord"),), pre="False", intra="False", post="False")
    tgt = mk("Unlabeled", post="False")
    if which == "UT":
        return mk("AOTP", coord_tokenizer=mk("UT"), adj_list_tokenizer=adj, target_tokenizer=tgt, path_tokenizer=path)
    if which == "CTT":
        return mk("AOTP", coord_tokenizer=mk("CTT", pre="True", intra="True", post="True"), adj_list_tokenizer=adj,
                  target_tokenizer=tgt, path_tokenizer=path)
    adj = mk("AdjListCardinal", pre="False", post="False", shuffle_d0="False", edge_grouping=mk("Ungrouped", connection_token_ordinal="2"),
             edge_subset=mk("AllLatticeEdges"), edge_permuter=mk("SortedCoords"))
    path = mk("StepSequence", step_size=mk("Forks"), step_tokenizers=(mk("Distance"), mk("Relative"), mk("Cardinal")),
              pre="True", intra="True", post="True")
    return mk("AOP", coord_tokenizer=mk("CTT", pre="False", intra="True", post="False"), adj_list_tokenizer=adj, path_tokenizer=path)


# ------------------------------------------------------------------------------------------------ slices (pins)
NESTED = dict(adj=dict(edge_grouping="grouping", edge_subset="subset", edge_permuter="permuter"),
              path=dict(step_size="step_size", step_tokenizers="perm"))
SEQ_FIELD = dict(coord="coord_tokenizer", adj="adj_list_tokenizer", target="target_tokenizer", path="path_tokenizer")


def pin_pred(fam, pin):
    """predicate on element params (conjunction): 'mod' = residue class of crc32(params), total on anything the library
    may produce; 'allow' = indices into family_values; 'cls' / 'where' = class names / field values"""
    conds = []
    if "mod" in pin:
        K, k = pin["mod"]
        conds.append(lambda p: crc(p) % K == k)
    if "allow" in pin or "where" in pin or "cls" in pin:
        vals = family_values(fam)
        w, cl = pin.get("where", {}), pin.get("cls")
        S = {v for i, v in enumerate(vals) if ("allow" not in pin or i in pin["allow"]) and (cl is None or v[0] in cl)
             and all(fields_of(v).get(k) in a for k, a in w.items())}
        conds.append(lambda p: p in S)
    return lambda p: all(c(p) for c in conds)


def allowed(fam, pins, memo):
    """reference values of a family inside a slice: own pin holds and nested elements are allowed in their family"""
    if fam in memo:
        return memo[fam]
    pred = pin_pred(fam, pins[fam]) if fam in pins else None
    sub = {k: set(allowed(f, pins, memo)) for k, f in NESTED.get(fam, {}).items()}
    out = []
    for v in family_values(fam):
        if pred is not None and not pred(v):
            continue
        fd = fields_of(v) if sub else None
        if any(fd[k] not in ok for k, ok in sub.items()):
            continue
        out.append(v)
    memo[fam] = out
    return out


_IDX = {}


def index_of(fam):
    if fam not in _IDX:
        _IDX[fam] = {p: i for i, p in enumerate(family_values(fam))}
    return _IDX[fam]


SEQ_FAMS = {cls: tuple(f for f in ("coord", "adj", "target", "path") if SEQ_FIELD[f] in FIELD_ORDER[cls]) for cls in ("AOTP", "AOP")}


def slice_reference(pins):
    """(iterator over the configuration keys of a slice, predicted count).  A key is (sequencer class, index of the
    coord / adj / [target] / path element in family_values) - a compact stand-in for the configuration (config_of)"""
    memo = {}
    A = {f: [index_of(f)[v] for v in allowed(f, pins, memo)] for f in ("coord", "adj", "target", "path")}
    seqs = [c for c, _ in SPEC["seq"] if "seq" not in pins or c in pins["seq"]["cls"]]
    n = 0
    for cls in seqs:
        m = 1
        for f in SEQ_FAMS[cls]:
            m *= len(A[f])  # size = product of the allowed value counts of the sequencer's fields
        n += m
    return itertools.chain.from_iterable(itertools.product([cls], *[A[f] for f in SEQ_FAMS[cls]]) for cls in seqs), n


def config_of(key):
    """the full configuration of a key"""
    cls = key[0]
    return (cls, tuple(sorted((SEQ_FIELD[f], family_values(f)[i]) for f, i in zip(SEQ_FAMS[cls], key[1:]))))


def why_not(p):
    """class of a configuration that is not in the reference (for violation keys): the first rule it breaks"""
    def walk(q):
        if isinstance(q, str):
            return None
        if not q:
            return "empty-tuple"
        if isinstance(q[0], tuple):
            if not perm_ok(q):
                return "invalid:step_tokenizers"
            return next((r for r in map(walk, q) if r), None)
        cls, fd = q[0], dict(q[1])
        if cls not in FIELD_ORDER:
            return f"unknown-class:{cls}"
        if set(fd) != set(FIELD_ORDER[cls]):
            return f"unknown-fields:{cls}"
        if cls != "StepSequence" and not rule_ok(cls, fd):
            return f"invalid:{cls}"
        return next((r for r in map(walk, fd.values()) if r), None)

    try:
        return walk(p) or "valid-but-outside-slice-or-domain"
    except Exception:
        return "unknown-shape"


# ------------------------------------------------------------------------------------------------ library access
class _Lib:
    pass


_L = None


def lib():
    global _L
    if _L is None:
        L = _Lib()
        import maze_dataset.tokenization as T
        from maze_dataset.tokenization.all_tokenizers import MAZE_TOKENIZER_MODULAR_DEFAULT_VALIDATION_FUNCS as VF
        from maze_dataset.utils import all_instances

        L.T, L.VF, L.all_instances, L.MTM = T, VF, all_instances, T.MazeTokenizerModular
        L.ns = {fam: getattr(T, ns) for fam, ns in NAMESPACE.items()}
        L.base = {fam: getattr(L.ns[fam], BASE[fam]) for fam in BASE}
        L.base["perm"] = T.StepTokenizers.StepTokenizerPermutation
        _L = L
    return _L


def params_of(x, cache=None):
    """configuration of a library object read structurally: (class name, sorted ((field, value), ...)); leaves as repr"""
    if isinstance(x, tuple):
        return tuple(params_of(y, cache) for y in x)
    if not hasattr(x, "__dataclass_fields__"):
        return repr(x)
    if cache is not None:
        hit = cache.get(id(x))
        if hit is not None and hit[0] is x:
            return hit[1]
    p = (type(x).__name__, tuple(sorted((k, params_of(v, cache)) for k, v in vars(x).items() if k != "_type_")))
    if cache is not None:
        cache[id(x)] = (x, p)  # keeps x alive, so the id cannot be reused
    return p


def params_of_tok(t, cache):
    ps = t.prompt_sequencer  # prompt sequencers are transient: never cached by id
    return (type(ps).__name__, tuple(sorted((k, params_of(v, cache)) for k, v in vars(ps).items() if k != "_type_")))


def key_of(t, icache):
    """configuration key of an enumerated tokenizer, or None if it is not a configuration of the reference product"""
    ps = t.prompt_sequencer
    cls = type(ps).__name__
    fams = SEQ_FAMS.get(cls)
    d = vars(ps)
    if fams is None or len(d) != len(fams) + ("_type_" in d):
        return None
    out = [cls]
    for fam in fams:
        x = d.get(SEQ_FIELD[fam])
        hit = icache.get(id(x))
        if hit is None or hit[0] is not x:
            hit = icache[id(x)] = (x, index_of(fam).get(params_of(x), -1))  # keeps x alive: the id cannot be reused
        if hit[1] < 0:
            return None
        out.append(hit[1])
    return tuple(out)


def build(p, bcache=None):
    """construct the library object of a configuration through the public constructors"""
    L = lib()
    if isinstance(p, str):
        return {"True": True, "False": False}.get(p, None) if p in BOOL else int(p)
    if p and isinstance(p[0], tuple):
        return tuple(build(x, bcache) for x in p)
    top = p[0] in ("AOTP", "AOP")
    if bcache is not None and not top and p in bcache:
        return bcache[p]
    cls = getattr(L.ns[FAMILY_OF_CLASS[p[0]]], p[0])
    o = cls(**{k: build(v, bcache) for k, v in p[1]})
    if bcache is not None and not top:
        bcache[p] = o
    return o


def build_tok(p, bcache=None):
    return lib().MTM(prompt_sequencer=build(p, bcache))


def make_vf(pins, cache):
    """DEFAULT validation funcs + one extra validation function per pinned family (each still calls is_valid)"""
    L = lib()
    vf = dict(L.VF)
    for fam, pin in pins.items():
        base = L.base[fam]
        if fam == "seq":
            names = set(pin["cls"])
            vf[base] = lambda x, names=names: x.is_valid() and type(x).__name__ in names
        elif fam == "perm":
            ok, dflt = pin_pred(fam, pin), L.VF[base]
            vf[base] = lambda x, ok=ok, dflt=dflt: dflt(x) and ok(params_of(x, cache))
        else:
            ok = pin_pred(fam, pin)
            vf[base] = lambda x, ok=ok: x.is_valid() and ok(params_of(x, cache))
    return vf


def legacy_set(cache):
    """configurations the library's own legacy mapping points at"""
    L = lib()
    return {m.name: params_of_tok(L.MTM.from_legacy(m), cache) for m in L.T.TokenizationMode}


# ------------------------------------------------------------------------------------------------ the slice oracle
S_STRUCT, S_NAMES, S_LOAD, S_ZANJ = 0, 1, 2, 3


def attempt(res, key, what, rp, fn):
    try:
        return True, fn()
    except Exception as e:
        res.fail(f"{key}|raises|{type(e).__name__}", f"{what}: raised {type(e).__name__}: {str(e)[:200]}", rp)
        return False, None


def run_slice(spec, res, only=None, tmp=None, tid=0, collect=None):
    """enumerate one slice with the real all_instances and judge every item.
    only: set of cfg digests to which the deep (name/hash/load) judgements are restricted (replay)."""
    L = lib()
    pins, level, scope = spec["pins"], spec["level"], spec["scope"].split(":")[0]
    cache, bcache, icache = {}, {}, {}
    vf = make_vf(pins, cache)
    gen, predicted = slice_reference(pins)
    seen = dict.fromkeys(gen, 0)
    assert len(seen) == predicted, "reference model inconsistent with its own size formula"
    legacy = set(legacy_set(cache).values()) if level >= S_NAMES else ()
    names, h61s, b64s, rows = {}, {}, {}, []
    zdir = tempfile.mkdtemp(prefix="mzc15_", dir="/var/tmp") if level >= S_ZANJ else None
    zanj = None
    if zdir:
        from zanj import ZANJ

        zanj = ZANJ()
    base = dict(kind="slice", spec=spec)
    n = n_name_ref = n_hash_ref = structural = 0
    try:
        for t in L.all_instances(L.MTM, vf):
            n += 1
            if type(t) is not L.MTM:
                res.fail("C15|all_instances|tokenizers|extra|not-a-tokenizer", f"enumeration yielded {t!r}", dict(base, only=[]))
                structural += 1
                continue
            key = key_of(t, icache)
            c = seen.get(key)
            if c is None:
                p = params_of_tok(t, cache)
                res.fail(f"C15|all_instances|tokenizers|extra|{why_not(p)}",
                         f"enumeration yields a configuration outside the reference product: {ref_name_safe(p)} ({scope} slice {pins})",
                         dict(base, only=[]))
                structural += 1
                continue
            seen[key] = c + 1
            if c:
                res.fail("C15|all_instances|tokenizers|duplicate", f"configuration enumerated {c + 1} times in {scope} slice {pins}: {ref_name(config_of(key))}",
                         dict(base, only=[]))
                structural += 1
                continue
            if level < S_NAMES:
                continue
            p = config_of(key)
            cd = cfg_digest(p)
            if only is not None and cd not in only:
                continue
            rp = dict(base, only=[cd])
            res.count("items_deep")
            res.nontrivial(cd)
            if collect is not None:
                collect[cd] = t
            # ---- names and hashes
            rn = ref_name(p)
            ok, nm = attempt(res, f"C15|name|{p[0]}", rn, rp, lambda: t.name)
            ok2, hv = attempt(res, f"C15|hash|{p[0]}", rn, rp, lambda: (hash(t), t.hash_b64()))
            if not (ok and ok2):
                continue
            if not isinstance(nm, str) or not isinstance(hv[0], int):
                res.fail(f"C15|name-or-hash|{p[0]}|wrong type", f"name={nm!r} hash={hv[0]!r} for {rn}", rp)
                continue
            n_name_ref += nm == rn
            n_hash_ref += hv == ref_hashes(nm)
            for label, store, val in (("name", names, nm), ("hash", h61s, hv[0]), ("hash_b64", b64s, hv[1])):
                other = store.setdefault(val, (p, cd, nm))
                if other[0] != p and (label == "name" or other[2] != nm):  # equal names imply equal hashes: reported once, as a name collision
                    res.fail(f"C15|{label}|collision|distinct configurations",
                             f"two distinct tokenizers have the same {label} {val!r}: {ref_name(p)} and {ref_name(other[0])}",
                             dict(base, only=[cd, other[1]]))
            rows.append((int(cd, 16), int(digest(nm), 16), hv[0] & M64, int(digest(hv[1]), 16), tid))
            if n % 997 == 1:
                res.sample(dict(cfg=cd, name=nm, hash=hv[0], hash_b64=hv[1], scope=scope), cap=2)
            # ---- an equal tokenizer built independently has the same name and hash
            ok, b = attempt(res, f"C15|equal_copy|{p[0]}|construct", rn, rp, lambda: build_tok(p, bcache))
            if ok:
                ok, r = attempt(res, f"C15|equal_copy|{p[0]}", rn, rp, lambda: (b == t, b.name, hash(b)))
                if ok and (r[0] is not True or params_of_tok(b, None) != p):
                    res.fail(f"C15|equal_copy|{p[0]}|not equal", f"tokenizer built from the same parameters is not == the enumerated one: {rn}", rp)
                elif ok and r[1:] != (nm, hv[0]):
                    res.fail(f"C15|equal_copy|{p[0]}|name or hash differs", f"equal tokenizers differ in name/hash: {r[1:]} vs {(nm, hv[0])}", rp)
            # ---- legacy equivalence
            ok, le = attempt(res, f"C15|is_legacy_equivalent|{p[0]}", rn, rp, lambda: t.is_legacy_equivalent())
            if ok and bool(le) != (p in legacy):
                res.count("legacy_true", int(bool(le)))
                kind = "legacy target reports False" if p in legacy else "non-legacy tokenizer reports True"
                res.fail(f"C15|is_legacy_equivalent|{kind}", f"is_legacy_equivalent()={le!r} for {rn}; legacy targets are {sorted(map(ref_name, legacy))}", rp)
            elif ok:
                res.count("legacy_true", int(bool(le)))
            if level < S_LOAD:
                continue
            # ---- save / load
            res.count("items_serialize_load")
            ok, r = attempt(res, "C15|save_load|serialize-load", rn, rp, lambda: L.MTM.load(t.serialize()))
            if ok:
                judge_loaded(res, "serialize-load", r, t, p, nm, hv, rp)
            if zanj is not None:
                res.count("items_zanj")
                path = os.path.join(zdir, f"t{n}.zanj")

                def via_file():
                    zanj.save(t, path)
                    return zanj.read(path)

                ok, r = attempt(res, "C15|save_load|zanj", rn, rp, via_file)
                if ok:
                    judge_loaded(res, "zanj", r, t, p, nm, hv, rp)
                if os.path.exists(path):
                    os.remove(path)
    finally:
        if zdir:
            shutil.rmtree(zdir, ignore_errors=True)
    res.ev(n)
    res.count(f"items_{scope}", n)
    missing = [k for k, c in seen.items() if c == 0]
    if missing:
        res.fail(f"C15|all_instances|tokenizers|missing|{missing_class(missing, seen)}",
                 f"{len(missing)} valid configuration(s) never enumerated in {scope} slice {pins}, e.g. {ref_name(config_of(missing[0]))}", dict(base, only=[]))
    elif n != predicted and not structural:
        res.fail("C15|size|tokenizers|count differs from predicted product", f"{scope} slice {pins}: enumerated {n}, predicted {predicted}", dict(base, only=[]))
    res.count("name_equals_reference_rendering", n_name_ref)
    res.count("hash_equals_reference_blake2b", n_hash_ref)
    if tmp and rows:
        import numpy as np

        np.save(os.path.join(tmp, f"rows_{tid}.npy"), np.array(rows, dtype=np.uint64))
    return n


def missing_class(missing, seen):
    """which element family has values that occur in no enumerated configuration (else: only combinations are missing)"""
    present = {}
    for k, c in seen.items():
        if c:
            for pos, v in enumerate(k):
                present.setdefault((k[0], pos), set()).add(v)
    for m in missing:
        if (m[0], 0) not in present:
            return f"every {m[0]} tokenizer of the slice"
        for pos in range(1, len(m)):
            if m[pos] not in present[(m[0], pos)]:
                return f"values of {SEQ_FAMS[m[0]][pos - 1]} tokenizer absent"
    return "combinations of present values"


def ref_name_safe(p):
    try:
        return ref_name(p)
    except Exception:
        return repr(p)[:400]


def judge_loaded(res, how, r, t, p, nm, hv, rp):
    L = lib()
    try:
        same_cfg = type(r) is L.MTM and params_of_tok(r, None) == p
        eq = (r == t) is True and (t == r) is True
        rn, rh = r.name, hash(r)
    except Exception as e:
        res.fail(f"C15|save_load|{how}|loaded object unusable|{type(e).__name__}", f"{e!r} for {ref_name(p)}", rp)
        return
    if not same_cfg or not eq:
        got = ref_name_safe(params_of_tok(r, None)) if type(r) is L.MTM else repr(r)[:200]
        res.fail(f"C15|save_load|{how}|not equal", f"loaded tokenizer differs (==: {eq}): saved {ref_name(p)}, loaded {got}", rp)
    elif rn != nm or rh != hv[0]:
        res.fail(f"C15|save_load|{how}|name or hash differs", f"loaded name/hash {rn!r}/{rh} vs {nm!r}/{hv[0]}", rp)


# ------------------------------------------------------------------------------------------------ other task kinds
def run_elements(spec, res):
    """element census: all_instances(<abstract family>, DEFAULT) == reference values, each exactly once"""
    L = lib()
    sizes = predicted_sizes()
    for fam in spec["families"]:
        ref = dict.fromkeys(family_values(fam), 0)
        assert len(ref) == sizes[fam], f"reference model inconsistent for {fam}"
        rp = dict(kind="elements", families=[fam])
        n = bad = 0
        for x in L.all_instances(L.base[fam], L.VF):
            n += 1
            res.ev()
            res.count("items_elements")
            p = params_of(x)
            if p not in ref:
                res.fail(f"C15|all_instances|element:{fam}|extra|{why_not(p)}", f"{fam}: enumerated {p} which the validity rules exclude", rp)
                bad += 1
                continue
            ref[p] += 1
            if ref[p] > 1:
                res.fail(f"C15|all_instances|element:{fam}|duplicate", f"{fam}: {p} enumerated {ref[p]} times", rp)
                bad += 1
            res.nontrivial(("element", fam, p))
        miss = [p for p, c in ref.items() if c == 0]
        if miss:
            res.fail(f"C15|all_instances|element:{fam}|missing|{miss[0][0]}", f"{fam}: {len(miss)} valid value(s) never enumerated, e.g. {miss[0]}", rp)
        elif n != sizes[fam] and not bad:
            res.fail(f"C15|size|element:{fam}|count differs from predicted product", f"{fam}: enumerated {n}, predicted {sizes[fam]}", rp)
        res.add("element_family_sizes", (fam, n))


def run_legacy(spec, res):
    """every legacy mode (and legacy MazeTokenizer object) maps to a tokenizer that reports itself legacy-equivalent"""
    L = lib()
    T = L.T
    for m in T.TokenizationMode:
        for how in ("mode", "MazeTokenizer"):
            res.ev()
            rp = dict(kind="legacy")
            arg = m if how == "mode" else T.MazeTokenizer(tokenization_mode=m, max_grid_size=5)
            ok, t = attempt(res, f"C15|from_legacy|{m.name}", f"from_legacy({m.name})", rp, lambda: L.MTM.from_legacy(arg))
            if not ok:
                continue
            ok, le = attempt(res, f"C15|is_legacy_equivalent|{m.name}", f"from_legacy({m.name})", rp, lambda: t.is_legacy_equivalent())
            if ok and le is not True:
                res.fail(f"C15|is_legacy_equivalent|legacy target reports False",
                         f"from_legacy({m.name} via {how}) = {getattr(t, 'name', t)!r} has is_legacy_equivalent() = {le!r}", rp)
            res.nontrivial(("legacy", m.name, how))
            if how == "mode" and m.name != "AOTP_UT_uniform":
                res.sample(dict(legacy_mode=m.name, maps_to=getattr(t, "name", None)))


def run_sampling(spec, res):
    """the helpers built on the (cached) enumeration - sample_all_tokenizers, sample_tokenizers_for_test, all_tokenizers_set - must
    leave the enumeration as it was. Quick tier: the enumeration they see is a stand-in (a real all_instances slice of ~650
    tokenizers plus the always-included test tokenizers) bound into the module in place of the 5.8M list; every order of the three
    helpers and sample sizes is run, the list is compared object by object after each call (the thorough tier does the same on the
    real enumeration in the un-sliced pass)."""
    import functools
    import itertools as it

    from maze_dataset.tokenization import all_tokenizers as AT

    L = lib()
    pins = dict(coord=dict(allow=[0]), path=dict(allow=[0, 1, 2]))  # 3 sequencers/targets x 1 coord x 216 adjacency x 3 path tokenizers
    cache = {}
    stand_in = list(L.all_instances(L.MTM, validation_funcs=make_vf(pins, cache)))
    for t in AT.EVERY_TEST_TOKENIZERS:
        if t not in stand_in:
            stand_in.append(t)
    rp = dict(kind="sampling")
    real = AT.get_all_tokenizers
    calls = [("sample_all", lambda: AT.sample_all_tokenizers(3)), ("sample_test_5", lambda: AT.sample_tokenizers_for_test(5)),
             ("sample_test_min", lambda: AT.sample_tokenizers_for_test(len(AT.EVERY_TEST_TOKENIZERS))), ("set", lambda: AT.all_tokenizers_set()),
             ("sample_test_none", lambda: AT.sample_tokenizers_for_test(None))]
    try:
        for order in it.permutations(calls, 3):
            for fn in (AT.all_tokenizers_set, AT._all_tokenizers_except_every_test_tokenizers):
                if hasattr(fn, "cache_clear"):
                    fn.cache_clear()
            lst = list(stand_in)
            AT.get_all_tokenizers = functools.cache(lambda lst=lst: lst)
            for k, (nm, fn) in enumerate(order):
                res.ev()
                try:
                    out = fn()
                except Exception as e:  # noqa: BLE001
                    res.fail(f"C15|{nm}|raises|{type(e).__name__}", f"{nm} raised {type(e).__name__}: {str(e)[:200]} after {[o[0] for o in order[:k]]}", rp)
                    break
                now = AT.get_all_tokenizers()
                if len(now) != len(stand_in) or any(a is not b for a, b in zip(now, stand_in)):
                    miss = [t.name for t in stand_in if not any(t is x for x in now)][:2]
                    res.fail(f"C15|get_all_tokenizers|changed_by|{nm}", f"after {[o[0] for o in order[:k + 1]]} the cached enumeration has {len(now)} entries "
                             f"({len(stand_in)} before); missing e.g. {miss}", rp)
                    break
                if nm.startswith("sample_test") and nm != "sample_test_none":
                    want_n = 5 if nm == "sample_test_5" else len(AT.EVERY_TEST_TOKENIZERS)
                    if len(out) != want_n or not all(any(t is x or t == x for x in out) for t in AT.EVERY_TEST_TOKENIZERS):
                        res.fail(f"C15|{nm}|content", f"{nm} returned {len(out)} tokenizers / without the always-included ones", rp)
            res.nontrivial(("sampling", tuple(o[0] for o in order)))
    finally:
        AT.get_all_tokenizers = real
        for fn in (AT.all_tokenizers_set, AT._all_tokenizers_except_every_test_tokenizers):
            if hasattr(fn, "cache_clear"):
                fn.cache_clear()
    res.count("sampling_orders", 60)


def slice_table(spec):
    """{cfg: [name, hash, hash_int, hash_b64]} of one slice, as the child processes print it"""
    L = lib()
    cache = {}
    out = {}
    for t in L.all_instances(L.MTM, make_vf(spec["pins"], cache)):
        out[cfg_digest(params_of_tok(t, cache))] = [t.name, hash(t), str(t.hash_int()), t.hash_b64()]
    return out


def run_seed(spec, res):
    """the same slice in a child interpreter with another PYTHONHASHSEED: identical names and hashes per configuration"""
    mine = slice_table(spec)
    env = dict(os.environ, PYTHONHASHSEED=spec["seed"])
    cp = subprocess.run([sys.executable, "-m", MOD, "table", json.dumps(spec)], cwd=str(os.path.dirname(os.path.dirname(os.path.dirname(__file__)))),
                        env=env, capture_output=True, text=True)
    if cp.returncode != 0:
        raise RuntimeError(f"child failed: {cp.stderr[-2000:]}")
    child = json.loads(cp.stdout.strip().splitlines()[-1])
    rp = dict(kind="seed", spec=spec)
    if child["hashseed"] != spec["seed"]:
        raise RuntimeError("child ran with the wrong PYTHONHASHSEED")
    theirs = child["table"]
    if set(mine) != set(theirs):
        res.fail("C15|cross_process|PYTHONHASHSEED|different set of configurations enumerated",
                 f"seed {spec['seed']}: {len(mine)} vs {len(theirs)} configurations", rp)
    for cd, v in mine.items():
        res.ev()
        res.count("items_cross_process")
        w = theirs.get(cd)
        if w is None:
            continue
        if v[0] != w[0]:
            res.fail("C15|cross_process|PYTHONHASHSEED|name differs", f"seed {spec['seed']}: {v[0]!r} vs {w[0]!r}", rp)
        elif v[1:] != w[1:]:
            res.fail("C15|cross_process|PYTHONHASHSEED|hash differs",
                     f"seed {spec['seed']}: {v[0]}: hash/hash_int/hash_b64 {v[1:]} here vs {w[1:]} in the child", rp)
        res.nontrivial(("seed", spec["seed"], cd))


def run_unsliced(res):
    """thorough: the real get_all_tokenizers() in one piece: count and configuration multiset == reference product"""
    import numpy as np
    from maze_dataset.tokenization.all_tokenizers import get_all_tokenizers

    L = lib()
    gc.disable()  # millions of live containers: the cyclic collector would dominate the run time
    rp = dict(kind="unsliced")
    toks = get_all_tokenizers()
    total = predicted_sizes()["tokenizers"]
    n = len(toks)
    icache = {}
    extras = []

    def keys():
        for t in toks:
            k = key_of(t, icache) if type(t) is L.MTM else None
            if k is None:
                extras.append(t)
            yield int(digest(repr(k)), 16)

    got = np.fromiter(keys(), dtype=np.uint64, count=n)
    res.ev(n)
    res.count("items_unsliced", n)
    if extras:
        p = params_of_tok(extras[0], None) if type(extras[0]) is L.MTM else repr(extras[0])
        res.fail(f"C15|all_instances|get_all_tokenizers|extra|{why_not(p)}",
                 f"{len(extras)} enumerated object(s) outside the reference product, e.g. {ref_name_safe(p)}", rp)
    ref = np.fromiter((int(digest(repr(k)), 16) for k in slice_reference({})[0]), dtype=np.uint64, count=total)
    got.sort()
    ref.sort()
    if len(np.unique(ref)) != total:
        raise RuntimeError("reference configurations collide under the 64-bit digest")
    if not extras and (n != total or not np.array_equal(got, ref)):
        missing = np.setdiff1d(ref, got)
        dup = n - len(np.unique(got))
        res.fail("C15|all_instances|get_all_tokenizers|configuration multiset differs from reference product",
                 f"len(get_all_tokenizers()) = {n}, predicted {total}; {len(missing)} missing, {dup} repeated configurations", rp)
    res.count("unsliced_distinct_configurations", int(len(np.unique(got))))
    # the enumeration is data: using the sampling helpers that are built on it must leave it complete (history: sample, then enumerate again)
    from maze_dataset.tokenization import all_tokenizers as AT

    try:
        AT.sample_all_tokenizers(3)
        s1 = AT.sample_tokenizers_for_test(5)
        s2 = AT.sample_tokenizers_for_test(len(AT.EVERY_TEST_TOKENIZERS))
        again = get_all_tokenizers()
        res.ev()
        if len(again) != n or again is not toks and len(again) != len(toks):
            res.fail("C15|all_instances|get_all_tokenizers|after_sampling|count", f"after sample_all_tokenizers / sample_tokenizers_for_test, get_all_tokenizers() has "
                     f"{len(again)} tokenizers, {n} before (predicted {total})", dict(kind="unsliced"))
        else:
            got2 = np.fromiter((int(digest(repr(key_of(t, icache) if type(t) is L.MTM else None)), 16) for t in again), dtype=np.uint64, count=len(again))
            got2.sort()
            if not np.array_equal(got2, got):
                res.fail("C15|all_instances|get_all_tokenizers|after_sampling|multiset", "after the sampling helpers ran, the enumeration holds other configurations than before",
                         dict(kind="unsliced"))
        if len(s1) != 5 or len(s2) != len(AT.EVERY_TEST_TOKENIZERS) or len(set(s1)) != 5:
            res.fail("C15|sample_tokenizers_for_test|size", f"samples of size {len(s1)} (5 asked), {len(s2)} ({len(AT.EVERY_TEST_TOKENIZERS)} asked)", dict(kind="unsliced"))
        res.count("unsliced_after_sampling_checked")
    except MemoryError:
        raise
    except Exception as e:  # noqa: BLE001
        res.fail(f"C15|sample_tokenizers_for_test|raises|{type(e).__name__}", f"sampling helpers raised {type(e).__name__}: {str(e)[:200]}", dict(kind="unsliced"))


def task(t, res):
    kind = t["kind"]
    if kind == "slice":
        run_slice(t["spec"], res, tmp=t.get("tmp"), tid=t.get("tid", 0))
    elif kind == "elements":
        run_elements(t, res)
    elif kind == "legacy":
        run_legacy(t, res)
    elif kind == "sampling":
        run_sampling(t, res)
    elif kind == "seed":
        run_seed(t["spec"], res)
    elif kind == "unsliced":
        run_unsliced(res)
    elif kind == "history":
        from . import c15_hist

        c15_hist.history_task(t, res)
    else:
        raise ValueError(kind)


def replay(d, res):
    kind = d["kind"]
    if kind == "history":
        from . import c15_hist

        return c15_hist.replay(d, res)
    if kind == "slice":
        run_slice(d["spec"], res, only=set(d.get("only") or []))
    elif kind == "cross":
        found = {}
        for s in d["sides"]:
            run_slice(s["spec"], Sink(), only={s["cfg"]}, collect=found)
        judge_cross(d, found, res)
    elif kind == "elements":
        run_elements(d, res)
    elif kind == "legacy":
        run_legacy(d, res)
    elif kind == "sampling":
        run_sampling(d, res)
    elif kind == "seed":
        run_seed(d["spec"], res)
    elif kind == "unsliced":
        run_unsliced(res)
    else:
        raise ValueError(kind)


class Sink:
    """a Result that swallows everything (used when a slice is re-enumerated only to fetch two tokenizers)"""

    def __getattr__(self, name):
        return lambda *a, **k: None


def judge_cross(d, found, res):
    (a, b) = d["sides"]
    ta, tb = found.get(a["cfg"]), found.get(b["cfg"])
    if ta is None or tb is None:
        return
    label = d["label"]
    val = {"name": lambda t: t.name, "hash": lambda t: hash(t), "hash_b64": lambda t: t.hash_b64()}[label]
    if a["cfg"] != b["cfg"] and val(ta) == val(tb):
        res.fail(f"C15|{label}|collision|distinct configurations", f"two distinct tokenizers have the same {label} {val(ta)!r}: {ta.name} / {tb.name}", d)
    if a["cfg"] == b["cfg"] and val(ta) != val(tb):
        res.fail(f"C15|cross_process|same configuration|{label} differs", f"{val(ta)!r} vs {val(tb)!r}", d)


# ------------------------------------------------------------------------------------------------ task lists
def idx(fam, p):
    return family_values(fam).index(p)


def star_specs(which, level, path_level=None):
    """all tokenizers that differ from an anchor in exactly one top-level element (one slice per element family)"""
    a = anchor(which)
    fd = fields_of(a)
    out = []
    for free in ("seq", "coord", "adj", "target", "path"):
        pins = {}
        for fam in ("coord", "adj", "target", "path"):
            if fam != free and SEQ_FIELD[fam] in fd:
                pins[fam] = dict(allow=[idx(fam, fd[SEQ_FIELD[fam]])])
        if free != "seq":
            if free == "target" and a[0] == "AOP":
                continue
            pins["seq"] = dict(cls=[a[0]])
        lv = path_level if (free == "path" and path_level is not None) else level
        out.append(dict(pins=pins, level=lv, scope=f"star:{which}:{free}"))
        if lv != level:  # the affordable part of the path star at the full level: delimiters as in the anchor
            pf = fields_of(fd["path_tokenizer"])
            out.append(dict(pins=dict(pins, path=dict(where={k: [pf[k]] for k in ("pre", "intra", "post")})), level=level,
                            scope=f"star:{which}:path-steps"))
    return out


AXES = [  # (axis, family, kind, number of values); kind 'fam' = whole family, otherwise a field / the class of that family
    ("seq", "seq", "cls", 2), ("coord", "coord", "fam", 9), ("adj_cls", "adj", "cls", 2), ("adj_post", "adj", "post", 2),
    ("adj_shuffle", "adj", "shuffle_d0", 2), ("grouping", "grouping", "fam", 3), ("subset", "subset", "fam", 3),
    ("permuter", "permuter", "fam", 3), ("target", "target", "fam", 2), ("step_size", "step_size", "fam", 2),
    ("perm", "perm", "fam", 63), ("p_pre", "path", "pre", 2), ("p_intra", "path", "intra", 2), ("p_post", "path", "post", 2),
]
BOXES = [  # free axes; every other axis is pinned at value (box number + axis number) mod size
    ("seq", "coord", "target", "p_pre", "p_intra", "p_post"),
    ("perm", "step_size", "coord"),
    ("adj_cls", "adj_post", "adj_shuffle", "grouping", "subset", "permuter", "seq", "target"),
    ("adj_cls", "adj_post", "adj_shuffle", "grouping", "subset", "permuter", "coord"),
    ("step_size", "perm", "p_pre", "p_intra", "p_post", "seq", "target"),
    ("step_size", "perm", "p_pre", "p_intra", "p_post", "coord"),
    ("adj_cls", "adj_post", "adj_shuffle", "grouping", "subset", "permuter", "perm"),
    ("grouping", "subset", "permuter", "perm", "coord"),
]


def box_spec(i, free, level):
    pins = {}
    for j, (ax, fam, kind, size) in enumerate(AXES):
        if ax in free:
            continue
        v = (i + j) % size
        pin = pins.setdefault(fam, {})
        if kind == "fam":
            pin["allow"] = [v]
        elif kind == "cls":
            pin["cls"] = [SPEC[fam][v][0]]
        else:
            pin.setdefault("where", {})[kind] = [BOOL[v]]
    return dict(pins=pins, level=level, scope=f"box:{i}")


def census_specs(level, ka, kp, load_diagonal=False):
    """partition of the whole space; with load_diagonal the slices a == b (about 1/12 of the space) also go through save/load"""
    return [dict(pins=dict(adj=dict(mod=[ka, a]), path=dict(mod=[kp, b])), level=S_LOAD if (load_diagonal and a == b) else level, scope="census")
            for a in range(ka) for b in range(kp)]


def seed_spec():
    return box_spec(3, ("seq", "coord", "target", "perm"), S_NAMES)


def task_list(tier):
    quick = tier == "quick"
    specs = []
    specs += star_specs("UT", S_ZANJ, S_LOAD if quick else None) + star_specs("CTT", S_LOAD if quick else S_ZANJ)
    specs += star_specs("far", S_LOAD if quick else S_ZANJ)
    specs += [box_spec(i, free, S_LOAD if (i < 6 or not quick) else S_NAMES) for i, free in enumerate(BOXES)]
    if not quick:
        specs += [box_spec(i + 8, free, S_ZANJ) for i, free in enumerate(BOXES[:3])]
    specs += census_specs(S_STRUCT if quick else S_NAMES, 12, 6, load_diagonal=not quick)
    tasks = [dict(kind="slice", spec=s) for s in specs]
    tasks += [dict(kind="elements", families=[f]) for f in ELEMENT_FAMILIES]
    tasks += [dict(kind="legacy"), dict(kind="sampling")]
    tasks += [dict(kind="seed", spec=dict(seed_spec(), seed=s)) for s in SEEDS]
    from . import c15_hist

    nf = len(c15_hist.fps())
    for fi in range(nf):
        tasks.append(dict(kind="history", fis=[fi], depth=3 if (not quick or fi % 6 == 0) else 2))
    for i, t in enumerate(tasks):
        t["tid"] = i
    return tasks


# ------------------------------------------------------------------------------------------------ run
def cross_task_uniqueness(ctx, tasks, tmp):
    """over the union of all deep-judged items of all worker processes: one configuration -> one (name, hash, hash_b64),
    distinct configurations -> distinct names / hashes / hash_b64"""
    import numpy as np

    files = sorted(f for f in os.listdir(tmp) if f.startswith("rows_"))
    if not files:
        return
    arr = np.concatenate([np.load(os.path.join(tmp, f)) for f in files])
    by_tid = {t["tid"]: t for t in tasks}
    labels = {1: "name", 2: "hash", 3: "hash_b64"}

    def side(row):
        return dict(spec=by_tid[int(row[4])]["spec"], cfg=f"{int(row[0]):016x}")

    order = np.argsort(arr[:, 0], kind="stable")
    arr = arr[order]
    first = np.concatenate([[True], arr[1:, 0] != arr[:-1, 0]])
    grp = np.cumsum(first) - 1
    rep = arr[first]
    for col, label in labels.items():
        bad = np.nonzero(arr[:, col] != rep[grp, col])[0]
        if len(bad):
            i = int(bad[0])
            ctx.res.fail(f"C15|cross_process|same configuration|{label} differs",
                         f"the same configuration has different {label}s in two worker processes (cfg {int(arr[i, 0]):016x})",
                         dict(kind="cross", label=label, sides=[side(rep[grp[i]]), side(arr[i])]))
        s = rep[np.lexsort((rep[:, 1], rep[:, col]))]
        dup = np.nonzero((s[1:, col] == s[:-1, col]) & ((col == 1) | (s[1:, 1] != s[:-1, 1])))[0]  # equal names: reported as name collision only
        if len(dup):
            i = int(dup[0])
            ctx.res.fail(f"C15|{label}|collision|distinct configurations",
                         f"two distinct configurations (cfg {int(s[i, 0]):016x}, {int(s[i + 1, 0]):016x}) share a {label}",
                         dict(kind="cross", label=label, sides=[side(s[i]), side(s[i + 1])]))
    ctx.coverage["union_of_deep_items"] = dict(rows=int(len(arr)), distinct_configurations=int(len(rep)),
                                               distinct_names=int(len(np.unique(rep[:, 1]))), distinct_hashes=int(len(np.unique(rep[:, 2]))),
                                               distinct_hash_b64=int(len(np.unique(rep[:, 3]))))


def run(ctx):
    sizes = predicted_sizes()
    assert sizes["tokenizers"] == 5_878_656 == 3 * 9 * 216 * 1008
    tasks = task_list(ctx.tier)
    tmp = tempfile.mkdtemp(prefix="mzc15_rows_", dir="/var/tmp")
    child = None
    try:
        for t in tasks:
            if t["kind"] == "slice":
                t["tmp"] = tmp
        if not ctx.quick:  # the un-sliced real get_all_tokenizers(), alongside the pool (about 7 GB, one core)
            child = subprocess.Popen([sys.executable, "-m", MOD, "unsliced"], cwd=str(os.path.dirname(os.path.dirname(os.path.dirname(__file__)))),
                                     env=dict(os.environ), stdout=subprocess.PIPE, text=True)
        ctx.pmap(MOD, "task", tasks)
        cross_task_uniqueness(ctx, tasks, tmp)
        if child is not None:
            out, _ = child.communicate()
            if child.returncode != 0:
                raise RuntimeError("un-sliced pass failed")
            ctx.res.merge(json.loads(out.strip().splitlines()[-1]))
    finally:
        if child is not None and child.poll() is None:
            child.kill()
        shutil.rmtree(tmp, ignore_errors=True)
    c = ctx.res.counters
    census = c.get("items_census", 0)
    assert sum(slice_reference(s["pins"])[1] for s in census_specs(0, 12, 6)) == sizes["tokenizers"], "census slices do not partition the reference"
    if census != sizes["tokenizers"] and not ctx.res.fails:
        raise RuntimeError(f"census enumerated {census} items but no slice reported a deviation")
    deep = c.get("items_deep", 0)
    ref_ok = deep > 0 and c.get("name_equals_reference_rendering") == deep and c.get("hash_equals_reference_blake2b") == deep
    ctx.coverage.update(
        predicted_sizes=sizes,
        full_space_census=dict(slices=72, partition="crc32(params) of adjacency-list tokenizer mod 12 x path tokenizer mod 6",
                               tokenizers_enumerated=census, complete=census == sizes["tokenizers"],
                               judged="configuration multiset == reference product" + ("" if ctx.quick else "; names, hashes, equal copy, legacy on all; serialize/load on the 6 diagonal slices")),
        slices=dict(stars=sum(1 for t in tasks if t["kind"] == "slice" and t["spec"]["scope"].startswith("star")),
                    boxes=sum(1 for t in tasks if t["kind"] == "slice" and t["spec"]["scope"].startswith("box")), census=72),
        hash_seeds=list(SEEDS),
        seed_independent_reference=dict(
            agrees_on_every_deep_item=bool(ref_ok),
            note="informational, not an oracle: name == string formatting over the parameters and hash == blake2b(name) mod 2^61-1 "
                 "(no use of the seeded built-in str hash), which extends hash stability from the 5 tested PYTHONHASHSEED values to all"),
        full_space_names_hashes=not ctx.quick, unsliced_get_all_tokenizers=not ctx.quick,
        use_histories=dict(histories=c.get("use_histories", 0), tokenizers="pairwise-covering full tokenizers (c06.covering_full)",
                           alphabet="5 uses (tokenize L/T/S maze, tokenize with another tokenizer sharing the element objects, encode+decode) + 8 observations",
                           depth="2 (3 for every 6th tokenizer)" if ctx.quick else "3"),
    )
    ctx.rule = ("one evaluation = one object yielded by the real all_instances/get_all_tokenizers in one slice (or one legacy mode / one "
                "configuration in one PYTHONHASHSEED child), judged against the reference product; distinct_nontrivial counts distinct "
                "configurations that went through the name/hash/equal-copy/legacy(/save-load) judgements, distinct element values, and "
                "distinct (seed, configuration) pairs; the structural full-space census of the quick tier is counted in evaluations only")
    ctx.exhaustive = True
    ctx.assumptions += [
        "configurations are read off the objects with vars(); a field hidden from vars() would be invisible to the reference comparison",
        "slices restrict element families through extra validation functions; that all_instances composes a dataclass from its field "
        "enumerations in the same way with and without such a filter is assumed in quick and checked by the un-sliced pass in thorough",
        "64-bit blake2b digests stand in for names/configurations when uniqueness is checked across worker processes",
        "hash stability is run for PYTHONHASHSEED in {0,1,2,4242,random} only; all other seeds rest on the informational agreement with the seed-free reference",
    ]


# ------------------------------------------------------------------------------------------------ child entry points
def _main(argv):
    from ..runner import Result, bind_repo

    bind_repo()
    if argv[0] == "table":
        spec = json.loads(argv[1])
        print(json.dumps(dict(hashseed=os.environ.get("PYTHONHASHSEED"), table=slice_table(spec))))
    elif argv[0] == "unsliced":
        res = Result()
        run_unsliced(res)
        print(json.dumps(res.pack()))


if __name__ == "__main__":
    _main(sys.argv[1:])
