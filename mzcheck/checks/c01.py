"""C01 Generators emit well-formed lattice graphs; DFS/Wilson emit spanning trees (DESIGN 5/C01)"""
from . import gencheck


def run(ctx):
    tasks = gencheck.tasks_for(ctx.tier, "C01")
    ctx.pmap("mzcheck.checks.gencheck", "explore_task", tasks)
    ctx.pmap("mzcheck.checks.gencheck", "sequence_task", gencheck.sequence_tasks(ctx.tier, "C01"), fresh=True)
    ctx.pmap("mzcheck.checks.gencheck", "alias_task", [dict(which="C01")])
    ctx.pmap("mzcheck.checks.gencheck", "long_walk_task", [dict(which="C01", lengths=[k, k + 1, k + 2]) for k in ((1000, 6000, 30000) if ctx.quick else (1000, 6000, 30000, 100000, 300000))])
    finish(ctx, tasks)


def finish(ctx, tasks):
    c = ctx.res.counters
    ctx.coverage.update(
        states=c.get("states", 0), transitions=c.get("transitions", 0),
        traces_validated_against_impl=c.get("executions", 0),
        tasks=len(tasks), shape_sequences_in_one_interpreter=dict(sequences=len(gencheck.sequence_tasks(ctx.tier, "C01")), elements=c.get("sequence_elements", 0),
                                                                 shapes=[[list(x) for x in q] for q in gencheck.SEQ_SHAPES]), distinct_outputs=len(ctx.res.sets.get("outputs", ())),
        state_graphs=sorted(ctx.res.sets.get("graphs", ()), key=repr)[:60],
        capped=c.get("capped_tasks", 0) > 0 or c.get("unowned_draws", 0) > 0, unowned_draws=c.get("unowned_draws", 0),
        slowest_tasks=sorted(ctx.res.sets.get("timing", ()), key=lambda t: -t[0])[:12],
        bounds="gen_dfs default: every execution on all r,c in 1..4 (+4x5,5x4 thorough); kwargs cross product on <=3x3 (+3x4,4x3); "
               "randomized stack and Wilson: complete program-state graph on the listed shapes; percolation: effective-bit families",
    )
    ctx.rule = ("every RNG answer sequence of GENERATORS_MAP[name](shape, **kw) (stateless DFS) or every reachable program state "
                "(explicit-state BFS for Wilson / randomized stack); distinct = distinct (shape, connection bits, generator)")
    ctx.exhaustive = c.get("capped_tasks", 0) == 0 and c.get("unowned_draws", 0) == 0
    ctx.assumptions += ["RNG primitives answer within their documented range (NumPy/`random` contract)",
                        "program state at a choice point = locals + instruction offset of all library frames (DESIGN 2.2)"]


def replay(d, res):
    gencheck.replay_case(d, res, "C01")
