"""C05 Datasets survive serialization and disk round trips unchanged (DESIGN 5/C05)

Enumerated: datasets D (real generator output for every registered generator x grid sizes x lengths, and crafted lists
over the solution-length alphabet {1, 2, 3, full} -- every assignment of a length class to every position for n <= 3,
a fixed family for n = 5) x metadata mode {per-maze generation_meta, none, collected} x format {_serialize_full,
_serialize_minimal, _serialize_minimal_soln_cat, serialize() under threshold in {None, 0, 1, n, n+1}} x transport
{in-memory load, ZANJ file}; collections = every ordered tuple of 1..k member kinds (incl. an empty member) x thresholds
x wiring of the member configs x transport.

Reference model: a snapshot of plain lists / bytes taken before serialisation, a literal re-statement of the documented
metadata counter, the documented threshold rule. Mazes are compared by bytes / lists, never by ==.
"""
import copy
import itertools
import json
import os
import shutil
import tempfile

from .. import refmodel as R

MOD = "mzcheck.checks.c05"

GEN_KW = {"gen_dfs": {}, "gen_wilson": {}, "gen_percolation": {"p": 0.4}, "gen_dfs_percolation": {"p": 0.3}, "gen_prim": {}}
MODES = ("per_maze_meta", "no_generation_meta", "collected_meta")
DIRECT_FORMATS = ("full", "minimal", "minimal_soln_cat")
SER_METHOD = {"full": "_serialize_full", "minimal": "_serialize_minimal", "minimal_soln_cat": "_serialize_minimal_soln_cat"}
FORMAT_TAG = {"MazeDataset": "full", "MazeDataset:minimal": "minimal", "MazeDataset:minimal_soln_cat": "minimal_soln_cat"}
PROVENANCE = {"name": "collect_generation_meta", "args": [], "kwargs": {}}
CLASSES = ("1", "2", "m", "x")  # solution-length classes: 1 cell (start == end), 2 cells, 3 cells, the generator's full path
N5_PATTERNS = ["xxxxx", "mmmmm", "22222", "11111", "1xxxx", "xx1xx", "xxxx1", "2xxxx", "xx2xx", "xxxx2", "12mx2", "xm21x", "x1x2x"]


# ------------------------------------------------------------------------------------------------ the dataset space
def generators():
    from maze_dataset.generation.generators import GENERATORS_MAP

    return list(GENERATORS_MAP)


def dataset_specs(tier):
    """list of (dspec, family): family "all" = direct formats + every threshold, "direct" = the three direct formats only"""
    out = []
    gens = generators()
    quick = tier == "quick"
    for gen in gens:
        if quick:
            gn = [(3, n) for n in (1, 2, 3, 5)] + [(2, 1), (2, 3), (4, 2), (4, 5)]
            if gen in ("gen_dfs", "gen_percolation"):
                gn.append((6, 5))
            seeds = [0]
        else:
            gn = [(g, n) for g in (2, 3, 4, 5, 6) for n in (1, 2, 3, 5)]
            seeds = [0, 1]
        for g, n in gn:
            for sd in seeds:
                for mode in MODES:
                    out.append((("gen", gen, g, n, 1000 + 10 * g + sd, mode), "all"))
    for g in ([3, 4] if quick else [3, 4, 6]):
        pats = ["".join(p) for n in (1, 2, 3) for p in itertools.product(CLASSES, repeat=n)]
        if quick and g == 4:
            pats = ["1x2", "x1x", "2m1", "xxx", "mmm"]
        if not quick and g == 3:
            pats += ["".join(p) for p in itertools.product(CLASSES, repeat=4)]
        pats += N5_PATTERNS
        for p in pats:
            fam = "all" if (not quick or g == 4 or len(p) != 3) else "direct"
            for mode in MODES:
                out.append((("craft", g, p, mode), fam))
    # configurations whose declared count differs from what the dataset holds
    for delta in (3, -1, -2):
        # (not with per-maze metadata: the documented in-place collection of the minimal formats then re-syncs the count, which is
        #  the dataset's own business and not a round-trip question)
        for mode in ("no_generation_meta", "collected_meta"):
            out.append((("stale", 3, "x1m2", delta, mode), "all"))
    # dataset sizes beyond the small scope (block / batch boundaries of a format), configurations with long float arguments
    for n in many_counts(tier):
        out.append((("many", 3, n, "no_generation_meta"), "direct"))
    # solution lengths across the 127/128 and 255/256 boundaries
    out.append((("long", 12, (127, 128, 129, 144), "no_generation_meta"), "all"))
    out.append((("long", 12, (3, 144, 2), "no_generation_meta"), "direct"))
    out.append((("long", 17, (255, 256, 257, 289), "no_generation_meta"), "all" if not quick else "direct"))
    return out


LONG_FLOATS = [1 / 3, 0.1 + 0.2, 2 / 7, 0.5 + 1e-11, 0.123456789012345678]


def many_counts(tier):
    """dataset sizes: every count 1..130, then around 256, 500, 512, 1000, 1024, 1200, 2048 (thorough: 4096, 10000)"""
    c = list(range(1, 131)) + [255, 256, 257, 499, 500, 501, 511, 512, 513, 999, 1000, 1001, 1023, 1024, 1025, 1203, 2047, 2048, 2049]
    return c if tier == "quick" else c + [4095, 4096, 4097, 9999, 10000, 10001]


def thresholds_for(n):
    out = []
    for t in (None, 0, 1, n, n + 1):
        if t not in out:
            out.append(t)
    return out


def cases_for(dspec, family="all"):
    n = dspec[3] if dspec[0] == "gen" else dspec[2] if dspec[0] == "many" else len(dspec[2])  # ("craft", g, pattern, mode) / ("long", g, lengths, mode): one maze per entry
    fmts = [("direct", f) for f in DIRECT_FORMATS] + ([("thr", t) for t in thresholds_for(n)] if family == "all" else [])
    return [(dspec, f, tr) for f in fmts for tr in ("memory", "file")]


# ------------------------------------------------------------------------------------------------ building datasets
_POOL = {}


def pool(grid):
    """5 distinct real generator outputs on this grid whose solutions have >= 5 cells: (clist, solution, generation_meta)"""
    if grid in _POOL:
        return _POOL[grid]
    from maze_dataset import MazeDataset, MazeDatasetConfig
    from maze_dataset.generation.generators import GENERATORS_MAP

    out, seen = [], set()
    for gen, kw, want in (("gen_dfs", {}, 3), ("gen_dfs_percolation", {"p": 0.2}, 2)):
        ds = MazeDataset.generate(MazeDatasetConfig(name="pool", grid_n=grid, n_mazes=80, seed=7, maze_ctor=GENERATORS_MAP[gen], maze_ctor_kwargs=kw))
        got = 0
        for m in ds.mazes:
            key = m.connection_list.tobytes()
            if len(m.solution) >= 5 and key not in seen and got < want:
                seen.add(key)
                got += 1
                out.append((m.connection_list.copy(), m.solution.tolist(), copy.deepcopy(m.generation_meta)))
        assert got == want, f"pool for grid {grid}: only {got} usable {gen} mazes"
    _POOL[grid] = out
    return out


def build(dspec):
    """fresh dataset for one case + reference metadata counter (or None). Nothing is shared between two calls."""
    import numpy as np
    from maze_dataset import MazeDataset, MazeDatasetConfig, SolvedMaze
    from maze_dataset.generation.generators import GENERATORS_MAP

    if dspec[0] == "gen":
        _, gen, g, n, seed, mode = dspec
        ds = None
        for bump in range(200):
            # percolation may produce a maze whose start component is a single cell: generation then fails with the
            # documented ValueError (C03's business). Take the first seed at or after `seed` for which generation succeeds.
            cfg = MazeDatasetConfig(name=f"g-{gen}", grid_n=g, n_mazes=n, seed=seed + 7919 * bump, maze_ctor=GENERATORS_MAP[gen],
                                    maze_ctor_kwargs=dict(GEN_KW.get(gen, {})))
            try:
                ds = MazeDataset.generate(cfg)
                break
            except ValueError:
                continue
        assert ds is not None, f"harness: could not generate {dspec}"
        ref = ref_counter([m.generation_meta for m in ds.mazes], 2)
        if mode == "no_generation_meta":
            ds = ds.filter_by.strip_generation_meta()
            ref = None
        elif mode == "collected_meta":
            ds = ds.filter_by.collect_generation_meta()
        return ds, ref
    if dspec[0] == "long":
        # serpentine corridor mazes whose stored solutions have lengths around 128 / 256 cells (narrow integer types in a format)
        _, g, ks, mode = dspec
        cl = np.zeros((2, g, g), dtype=bool)
        cl[1, :, : g - 1] = True
        for i in range(g - 1):
            cl[0, i, g - 1 if i % 2 == 0 else 0] = True
        snake = []
        for i in range(g):
            snake += [(i, j) for j in (range(g) if i % 2 == 0 else range(g - 1, -1, -1))]
        mazes = [SolvedMaze(connection_list=cl.copy(), solution=np.array(snake[:k]), generation_meta=None) for k in ks]
        return MazeDataset(MazeDatasetConfig(name="long", grid_n=g, n_mazes=len(ks), seed=5), mazes), None
    if dspec[0] == "many":
        # n hand-built mazes (3x3 trees; maze i has its own tree, endpoints and solution length, so a row that moves shows) under a
        # configuration whose generator arguments are floats with long expansions (1/3, 0.1 + 0.2, ...): counts beyond any batch size
        _, g, n, mode = dspec
        trees = R.trees(g, g)
        cells = R.cells(g, g)
        mazes = []
        for i in range(n):
            cl = R.graph_from_bits(g, g, trees[(i * 37 + 11) % len(trees)])
            a, b = cells[i % len(cells)], cells[(i * 5 + 3 + i // len(cells)) % len(cells)]
            mazes.append(SolvedMaze(connection_list=cl, solution=np.array(R.all_shortest_paths(R.adjacency(cl), a, b)[0]), generation_meta=None))
        cfg = MazeDatasetConfig(name="many", grid_n=g, n_mazes=n, seed=5, maze_ctor=GENERATORS_MAP["gen_dfs_percolation"],
                                maze_ctor_kwargs=dict(p=LONG_FLOATS[n % len(LONG_FLOATS)]))
        return MazeDataset(cfg, mazes), None
    if dspec[0] == "stale":
        # a dataset whose configuration declares another count than it holds (hand-built, or sliced after generation)
        _, g, pat, delta, mode = dspec
        ds, ref = build(("craft", g, pat, mode))
        cfg = MazeDatasetConfig(name="stale", grid_n=g, n_mazes=len(pat) + delta, seed=5)
        out = MazeDataset(cfg, list(ds.mazes), generation_metadata_collected=ds.generation_metadata_collected)
        return out, ref
    if dspec[0] == "kept":
        from . import c05_chain

        return c05_chain.kept_datasets()[dspec[1]], None
    if dspec[0] == "empty":
        return MazeDataset(MazeDatasetConfig(name="empty", grid_n=dspec[1], n_mazes=0, seed=3), []), None
    _, g, pat, mode = dspec
    P = pool(g)
    mazes, metas = [], []
    for i, c in enumerate(pat):
        cl, sol, meta = P[i % len(P)]
        k = {"1": 1, "2": 2, "m": 3, "x": len(sol)}[c]
        meta_i = None if mode == "no_generation_meta" else copy.deepcopy(meta)
        metas.append(copy.deepcopy(meta_i))
        solution = [list(sol[0])] if k == 1 else np.array(sol[:k])
        mazes.append(SolvedMaze(connection_list=cl.copy(), solution=solution, generation_meta=meta_i))
    cfg = MazeDatasetConfig(name="craft", grid_n=g, n_mazes=len(pat), seed=5)
    ds = MazeDataset(cfg, mazes)
    ref = None if mode == "no_generation_meta" else ref_counter(metas, 2)
    if mode == "collected_meta":
        ds = ds.filter_by.collect_generation_meta()
    return ds, ref


# ------------------------------------------------------------------------------------------------ reference model
def _ckey(k):
    """canonical spelling of a counter key (JSON carries keys as text)"""
    if isinstance(k, str):
        return k
    if isinstance(k, tuple):
        return "(" + ", ".join(str(int(x)) for x in k) + ("," if len(k) == 1 else "") + ")"
    if isinstance(k, bool):
        return str(k)
    if isinstance(k, int):
        return str(int(k))
    if isinstance(k, float):
        return str(float(k))
    try:
        import numpy as np

        if isinstance(k, np.bool_):
            return str(bool(k))
        if isinstance(k, np.integer):
            return str(int(k))
        if isinstance(k, np.floating):
            return str(float(k))
    except ImportError:
        pass
    return str(k)


def ref_counter(metas, lattice_dim):
    """documented collection: scalars are counted by value, sets / coordinate lists element by element, single coordinates
    as one tuple -- result as {key: {canonical value text: count}}"""
    import numpy as np

    out = {}
    for meta in metas:
        if meta is None:
            return None
        for key, value in meta.items():
            cnt = out.setdefault(key, {})

            def bump(v):
                cnt[_ckey(v)] = cnt.get(_ckey(v), 0) + 1

            if isinstance(value, (bool, int, float, str)):
                bump(value)
            elif isinstance(value, set):
                for el in value:
                    bump(tuple(el) if isinstance(el, (tuple, list)) else el)
            else:
                arr = np.array(value)
                if arr.ndim == 1 and arr.shape[0] == lattice_dim:
                    bump(tuple(arr.tolist()))
                elif arr.ndim == 2 and arr.shape[1] == lattice_dim:
                    for row in arr.tolist():
                        bump(tuple(row))
                else:
                    raise AssertionError(f"harness: unexpected generation_meta value {key}={value!r}")
    return out


def canon_meta(md):
    if md is None:
        return None
    return {str(k): {_ckey(kk): int(vv) for kk, vv in dict(v).items()} for k, v in dict(md).items()}


def snapshot(ds):
    return [(tuple(m.connection_list.shape), m.connection_list.astype(bool).tobytes(), m.solution.tolist(),
             m.start_pos.tolist(), m.end_pos.tolist()) for m in ds.mazes]


def norm_cfg(cfg):
    return json.loads(json.dumps(cfg.serialize()))


def same(a, b):
    if type(a) is not type(b):
        return False
    if isinstance(a, dict):
        return set(a) == set(b) and all(same(a[k], b[k]) for k in a)
    if isinstance(a, (list, tuple)):
        return len(a) == len(b) and all(same(x, y) for x, y in zip(a, b))
    return a == b


def expected_format(n, t):
    return "minimal" if (t is not None and n >= t) else "full"


# ------------------------------------------------------------------------------------------------ the oracle
def judge_dataset(loaded, ds_after, snap, cfg_before, ref, res, keypfx, what, rd):
    """loaded vs. the original: `snap`/`cfg_before` were taken before serialisation, `ds_after` is the original afterwards"""
    from maze_dataset import MazeDataset, MazeDatasetConfig, SolvedMaze

    def bad(sym, msg):
        res.fail(f"{keypfx}|{sym}", f"{what}: {msg}", rd)

    if type(loaded) is not MazeDataset:
        bad("type", f"loaded object is {type(loaded).__name__}")
        return False
    ok = True
    # configuration: equal to the dataset's own, which may have gained exactly one provenance entry in place
    after = norm_cfg(ds_after.cfg)
    tolerated = copy.deepcopy(cfg_before)
    tolerated["applied_filters"] = tolerated["applied_filters"] + [PROVENANCE]
    if after != cfg_before and after != tolerated:
        bad("cfg_mutated", f"serialising changed the dataset's own config beyond the provenance entry: before={cfg_before['applied_filters']} "
                           f"after={after['applied_filters']} (n_mazes {cfg_before['n_mazes']}->{after['n_mazes']})")
        ok = False
    if type(loaded.cfg) is not MazeDatasetConfig:
        bad("cfg", f"loaded.cfg is {type(loaded.cfg).__name__}")
        return False
    got = norm_cfg(loaded.cfg)
    if got != after:
        diff = {k: (got.get(k), after.get(k)) for k in set(got) | set(after) if got.get(k) != after.get(k) and k != "maze_ctor"}
        bad("cfg", f"loaded cfg differs from the dataset's cfg: (loaded, original) = {diff!r:.500}")
        ok = False
    elif not (loaded.cfg == ds_after.cfg) or loaded.cfg.diff(ds_after.cfg) != {} or not same(loaded.cfg.applied_filters, ds_after.cfg.applied_filters) \
            or loaded.cfg.n_mazes != ds_after.cfg.n_mazes or loaded.cfg.maze_ctor is not ds_after.cfg.maze_ctor:
        bad("cfg", f"loaded cfg is not equal to the dataset's cfg: diff={loaded.cfg.diff(ds_after.cfg)!r:.300} "
                   f"filters={loaded.cfg.applied_filters!r} vs {ds_after.cfg.applied_filters!r}")
        ok = False
    # mazes
    try:
        n_loaded = len(loaded)
        mz = list(loaded.mazes)
    except Exception as e:
        bad("len", f"len()/mazes raised {e!r}")
        return False
    if n_loaded != len(snap) or len(mz) != len(snap):
        bad("len", f"{n_loaded} mazes loaded, {len(snap)} stored")
        return False
    for i, (m, s) in enumerate(zip(mz, snap)):
        if not isinstance(m, SolvedMaze):
            bad("maze_type", f"maze {i} is {type(m).__name__}")
            ok = False
            continue
        L = len(s[2])
        lc = "len1" if L == 1 else ("len2" if L == 2 else "len3plus")
        pos = "first" if i == 0 else ("last" if i == len(snap) - 1 else "middle")
        if tuple(m.connection_list.shape) != s[0] or m.connection_list.astype(bool).tobytes() != s[1]:
            bad("connection_list", f"maze {i} ({pos} of {len(snap)}): connection structure differs")
            ok = False
        if m.solution.tolist() != s[2]:
            bad(f"solution|{lc}", f"maze {i} ({pos} of {len(snap)}): solution {m.solution.tolist()} != stored {s[2]}")
            ok = False
        if m.start_pos.tolist() != s[3] or m.end_pos.tolist() != s[4]:
            bad(f"endpoints|{lc}", f"maze {i} ({pos} of {len(snap)}): start/end {m.start_pos.tolist()}/{m.end_pos.tolist()} != stored {s[3]}/{s[4]}")
            ok = False
    # collected metadata, when present
    if ds_after.generation_metadata_collected is not None:
        got_md = canon_meta(loaded.generation_metadata_collected)
        want = ref if ref is not None else canon_meta(ds_after.generation_metadata_collected)
        if got_md != want:
            if got_md is None:
                msg = "loaded dataset has no collected metadata"
            else:
                keys = sorted(k for k in set(got_md) | set(want) if got_md.get(k) != want.get(k))
                k0 = keys[0]
                msg = f"keys differing: {keys}; e.g. {k0}: loaded {got_md.get(k0)!r:.200} expected {want.get(k0)!r:.200}"
            bad("metadata", f"collected generation metadata differs from the reference counter: {msg}")
            ok = False
    return ok


# ------------------------------------------------------------------------------------------------ one dataset case
def run_case(case, tmpdir, res):
    import maze_dataset.dataset.maze_dataset as MD
    from maze_dataset import MazeDataset
    from zanj import ZANJ

    dspec, fmt, transport = tuple(case[0]), tuple(case[1]), case[2]
    rd = dict(kind="ds", dspec=list(dspec), fmt=list(fmt), transport=transport)
    mode = dspec[-1]
    res.ev()
    ds, ref = build(dspec)
    n = len(ds)
    snap = snapshot(ds)
    cfg_before = norm_cfg(ds.cfg)
    lens = [len(s[2]) for s in snap]
    what = f"dataset {dspec} (solution lengths {lens}), format {fmt}, transport {transport}"
    old_thr = MD.SERIALIZE_MINIMAL_THRESHOLD
    path = os.path.join(tmpdir, "d.zanj")
    loaded = None
    try:
        if fmt[0] == "thr":
            MD.set_serialize_minimal_threshold(fmt[1])
            chosen = expected_format(n, fmt[1])
        else:
            chosen = fmt[1]
        site = SER_METHOD[chosen]
        # ---- write
        try:
            if fmt[0] == "thr" and transport == "file":
                ds.save(path)
                ser = None
            else:
                ser = ds.serialize() if fmt[0] == "thr" else getattr(ds, SER_METHOD[fmt[1]])()
                if transport == "file":
                    ZANJ().save(ser, path)
        except BaseException as e:
            res.fail(f"C05|{site}|{mode}|{type(e).__name__}",
                     f"{what}: serialising raised {type(e).__name__}: {str(e)[:200]}", rd)
            return
        if ser is not None:
            tag = FORMAT_TAG.get(ser.get("__format__"), str(ser.get("__format__")))
            res.count("format_" + tag)
            if fmt[0] == "thr" and tag != chosen:
                res.fail("C05|serialize|threshold_rule", f"{what}: serialize() chose format {tag!r}, documented rule (len >= threshold) says {chosen!r}", rd)
        # ---- read
        try:
            loaded = MazeDataset.read(path) if transport == "file" else MazeDataset.load(ser)
        except BaseException as e:
            rsite = "MazeDataset.read" if transport == "file" else "MazeDataset.load"
            res.fail(f"C05|{rsite}|{chosen}|raises|{type(e).__name__}", f"{what}: loading raised {type(e).__name__}: {str(e)[:200]}", rd)
            return
    finally:
        MD.set_serialize_minimal_threshold(old_thr)
        if os.path.exists(path):
            os.remove(path)
    judge_dataset(loaded, ds, snap, cfg_before, ref, res, f"C05|{chosen}|{transport}|{mode}" + ("|solution_len>=128" if max(lens, default=0) >= 128 else ""), what, rd)
    res.count("cases_" + transport)
    res.count("cases_" + ("threshold" if fmt[0] == "thr" else "direct"))
    if ds.generation_metadata_collected is not None:
        res.count("cases_with_collected_metadata_compared")
    if len(set(lens)) > 1 or min(lens) <= 2 or ds.generation_metadata_collected is not None:
        res.nontrivial(("ds", dspec, fmt, transport))
    if len(set(lens)) > 1:
        res.count("cases_ragged_lengths")
    if 1 in lens:
        res.count("cases_with_len1_solution")
    if 2 in lens:
        res.count("cases_with_len2_solution")
    if n * 2 * dspec[2 if dspec[0] == "gen" else 1] ** 2 > 256:
        res.count("cases_with_external_array_size")


def ds_task(t, res):
    tmpdir = tempfile.mkdtemp(prefix="mzc05_", dir=os.environ.get("TMPDIR") or "/var/tmp")
    try:
        for dspec, fam in t["dspecs"]:
            for case in cases_for(tuple(dspec), fam):
                run_case(case, tmpdir, res)
        if t.get("first"):
            d0 = tuple(t["dspecs"][0][0])
            ds, _ = build(d0)
            res.sample(dict(dspec=list(d0), solution_lengths=[len(m.solution) for m in ds.mazes], cases=len(cases_for(d0, t["dspecs"][0][1]))))
    finally:
        shutil.rmtree(tmpdir, ignore_errors=True)


# ------------------------------------------------------------------------------------------------ collections
MEMBER_KINDS = {
    "A": ("gen", "gen_dfs", 3, 2, 1030, "per_maze_meta"),
    "B": ("gen", "gen_percolation", 2, 3, 1020, "collected_meta"),
    "C": ("craft", 3, "1", "no_generation_meta"),
    "D": ("gen", "gen_wilson", 4, 1, 1040, "per_maze_meta"),
    "E": ("empty", 2),
    "F": ("craft", 3, "x2", "per_maze_meta"),
    # two members with the same maze count, grid and longest solution but different mazes (e.g. train / validation splits)
    "G": ("kept", "A", "no_generation_meta"),
    "H": ("kept", "B", "no_generation_meta"),
}
COLL_THRESHOLDS = (None, 0, 1, 2, 3, 100)
WIRINGS = ("shared", "copied", "generate")


def collection_specs(tier):
    kinds = "ABCDE" if tier == "quick" else "ABCDEF"
    maxlen = 2 if tier == "quick" else 3
    tuples = ["".join(p) for k in range(1, maxlen + 1) for p in itertools.product(kinds, repeat=k)]
    if tier == "quick":
        tuples += ["ABE", "EAD", "DCA", "AAA", "BEA", "CEB"]
    tuples += ["GH", "HG", "GHG", "GAH"]
    out = []
    for tup in tuples:
        for t in COLL_THRESHOLDS:
            for w in WIRINGS:
                if w == "generate" and any(MEMBER_KINDS[k][0] != "gen" or MEMBER_KINDS[k][-1] != "per_maze_meta" for k in tup):
                    continue  # MazeDatasetCollection.generate can only produce plain generated members
                for tr in ("memory", "file"):
                    out.append((tup, t, w, tr))
    return out


def exempt(tup, t):
    """the property exempts empty members unless the full format is selected for them"""
    return any(MEMBER_KINDS[k][0] == "empty" for k in tup) and t is not None and 0 >= t


def run_collection(cspec, tmpdir, res):
    import maze_dataset.dataset.maze_dataset as MD
    from maze_dataset import MazeDatasetConfig
    from maze_dataset.dataset.collected_dataset import MazeDatasetCollection, MazeDatasetCollectionConfig

    tup, t, wiring, transport = cspec
    rd = dict(kind="coll", cspec=list(cspec))
    if exempt(tup, t):
        res.count("collection_cases_exempt_empty_member_minimal")
        return
    res.ev()
    built = [build(MEMBER_KINDS[k]) for k in tup]
    members = [b[0] for b in built]
    refs = [b[1] for b in built]
    if wiring == "generate":
        ccfg = MazeDatasetCollectionConfig(name="co", maze_dataset_configs=[MazeDatasetConfig.load(m.cfg.serialize()) for m in members])
        coll = MazeDatasetCollection.generate(ccfg)
        members = coll.maze_datasets
        refs = [ref_counter([m.generation_meta for m in d.mazes], 2) for d in members]
    else:
        cfgs = [m.cfg for m in members] if wiring == "shared" else [MazeDatasetConfig.load(m.cfg.serialize()) for m in members]
        coll = MazeDatasetCollection(MazeDatasetCollectionConfig(name="co", maze_dataset_configs=cfgs), members)
    snaps = [snapshot(m) for m in members]
    befores = [norm_cfg(m.cfg) for m in members]
    modes = [MEMBER_KINDS[k][-1] if MEMBER_KINDS[k][0] != "empty" else "empty" for k in tup]
    chosen = [expected_format(len(m), t) for m in members]
    what = f"collection of members {[MEMBER_KINDS[k] for k in tup]} (lengths {[len(m) for m in members]}), threshold {t}, member configs {wiring}, transport {transport}"
    old_thr = MD.SERIALIZE_MINIMAL_THRESHOLD
    path = os.path.join(tmpdir, "c.zanj")
    cls = "minimal_member" if "minimal" in chosen else "full_members"
    wcls = "shared_member_configs" if wiring == "shared" else "independent_member_configs"
    try:
        MD.set_serialize_minimal_threshold(t)
        try:
            if transport == "file":
                coll.save(path)
            else:
                ser = coll.serialize()
        except BaseException as e:
            # attribute to the member format that raised, with that member's metadata mode
            culprit = [md for md, ch in zip(modes, chosen) if ch == "minimal" and md == "no_generation_meta"]
            mode = culprit[0] if culprit else "+".join(sorted(set(modes)))
            site = "_serialize_minimal" if "minimal" in chosen else "MazeDatasetCollection.serialize"
            res.fail(f"C05|{site}|{mode}|{type(e).__name__}", f"{what}: serialising raised {type(e).__name__}: {str(e)[:200]}", rd)
            return
        try:
            loaded = MazeDatasetCollection.read(path) if transport == "file" else MazeDatasetCollection.load(ser)
        except BaseException as e:
            res.fail(f"C05|MazeDatasetCollection.load|{cls}|{wcls}|raises|{type(e).__name__}",
                     f"{what}: loading raised {type(e).__name__}: {str(e)[:200]}", rd)
            return
    finally:
        MD.set_serialize_minimal_threshold(old_thr)
        if os.path.exists(path):
            os.remove(path)
    pfx = f"C05|collection|{transport}"
    if type(loaded) is not MazeDatasetCollection:
        res.fail(f"{pfx}|type", f"{what}: loaded object is {type(loaded).__name__}", rd)
        return
    if len(loaded.maze_datasets) != len(members):
        res.fail(f"{pfx}|member_count", f"{what}: {len(loaded.maze_datasets)} members loaded", rd)
        return
    if norm_cfg(loaded.cfg) != norm_cfg(coll.cfg):
        res.fail(f"{pfx}|cfg|{cls}|{wcls}", f"{what}: loaded collection cfg differs from the collection's cfg", rd)
    for i, (lm, m) in enumerate(zip(loaded.maze_datasets, members)):
        judge_dataset(lm, m, snaps[i], befores[i], refs[i], res, f"{pfx}|member|{chosen[i]}|{modes[i]}", f"{what}, member {i}", rd)
    try:
        flat = [x.solution.tolist() for x in loaded.mazes]
        if len(loaded) != sum(len(s) for s in snaps) or flat != [s[2] for sn in snaps for s in sn]:
            res.fail(f"{pfx}|flat_order", f"{what}: concatenated mazes differ / wrong length", rd)
    except Exception as e:
        res.fail(f"{pfx}|flat_order|raises|{type(e).__name__}", f"{what}: len()/mazes of loaded collection raised {e!r}", rd)
    res.count("collection_cases_" + transport)
    res.nontrivial(("coll", cspec))


def coll_task(t, res):
    tmpdir = tempfile.mkdtemp(prefix="mzc05_", dir=os.environ.get("TMPDIR") or "/var/tmp")
    try:
        for cspec in t["cspecs"]:
            run_collection((cspec[0], cspec[1], cspec[2], cspec[3]), tmpdir, res)
    finally:
        shutil.rmtree(tmpdir, ignore_errors=True)


# ------------------------------------------------------------------------------------------------ driver
def any_task(t, res):
    if t["kind"] == "chain":
        from . import c05_chain

        return c05_chain.chain_task(t, res)
    if t["kind"] == "kept":
        from . import c05_chain

        return c05_chain.kept_task(t, res)
    (ds_task if t["kind"] == "ds" else coll_task)(t, res)


task = any_task


def run(ctx):
    import maze_dataset.dataset.maze_dataset as MD

    dspecs = dataset_specs(ctx.tier)
    cspecs = collection_specs(ctx.tier)
    nd, nc = (40, 12) if ctx.quick else (96, 32)
    # interleave so that tasks are of similar size
    tasks = [dict(kind="ds", dspecs=[[list(d), fam] for d, fam in dspecs[i::nd]], first=(i == 0)) for i in range(nd)]
    tasks += [dict(kind="coll", cspecs=[list(c) for c in cspecs[i::nc]]) for i in range(nc)]
    from . import c05_chain

    chain_depth = 3
    tasks += [dict(kind="chain", start=si, first=f, depth=chain_depth) for si in range(len(c05_chain.STARTS) if not ctx.quick else 2) for f in c05_chain.OPS]
    tasks += [dict(kind="kept", fmt=f, first=o, depth=4) for f in c05_chain.KEPT_FORMATS for o in ("serA", "serB")]
    ctx.pmap(MOD, "any_task", tasks)
    for hs in (("4", "7") if ctx.quick else ("1", "2", "4", "7", "123", "4242")):  # a slice of the dataset / collection / kept-object cases again in interpreters with other hash seeds
        ctx.pmap(MOD, "any_task", [t for t in tasks if t["kind"] in ("ds", "coll")][::7] + [t for t in tasks if t["kind"] == "kept"][:2], hashseed=hs)
    n_cases = sum(len(cases_for(d, fam)) for d, fam in dspecs)
    dspecs = [d for d, _ in dspecs]
    ctx.coverage.update(
        datasets=len(dspecs), dataset_cases=n_cases, collection_cases=len(cspecs),
        chains=dict(ops=c05_chain.OPS, depth=chain_depth, start_datasets=[list(x) for x in c05_chain.STARTS[:len(c05_chain.STARTS) if not ctx.quick else 2]],
                    chains_run=ctx.res.counters.get("chains", 0)),
        kept_serialized_objects=dict(ops=c05_chain.KEPT_OPS, depth=4, formats=c05_chain.KEPT_FORMATS, sequences_run=ctx.res.counters.get("kept_sequences", 0),
                                     datasets="two datasets with the same n_mazes / grid / longest solution and different mazes"),
        generated_datasets=sum(1 for d in dspecs if d[0] == "gen"), crafted_datasets=sum(1 for d in dspecs if d[0] == "craft"),
        generators=generators(), grids=sorted({d[2] if d[0] == "gen" else d[1] for d in dspecs}),
        lengths=sorted({d[3] if d[0] == "gen" else d[2] if d[0] == "many" else len(d[2]) for d in dspecs}),
        formats=list(DIRECT_FORMATS) + ["serialize() under threshold in {None,0,1,n,n+1}"], transports=["memory", "file (ZANJ)"],
        collection_member_kinds={k: list(v) for k, v in MEMBER_KINDS.items()}, collection_thresholds=list(COLL_THRESHOLDS),
        collection_wirings=list(WIRINGS), default_threshold_restored=MD.SERIALIZE_MINIMAL_THRESHOLD,
    )
    ctx.rule = ("every (dataset, format, transport) triple of the stated space is written and read back on the real implementation and "
                "compared maze by maze with a snapshot; distinct non-trivial = distinct cases whose dataset has ragged solution lengths, "
                "a 1- or 2-cell solution, or collected metadata to compare; plus every (member tuple, threshold, wiring, transport) collection case; plus every chain of "
                "<= 3 steps over 7 round trips + in-place metadata collection + an identity filter, each round trip judged against the state it started from")
    ctx.exhaustive = True
    ctx.assumptions += [
        "datasets with generation_meta on some mazes only are not in the stated space (with / without is a dataset-level attribute)",
        "the in-place `collect_generation_meta` provenance entry appended to the dataset's own config by the minimal formats is tolerated (DESIGN C05/C08), nothing else",
        "the collected-metadata reference is compared on canonical key text, since JSON carries keys as text",
    ]


# ------------------------------------------------------------------------------------------------ replay
def _tup(x):
    return tuple(_tup(y) for y in x) if isinstance(x, list) else x


def replay(d, res):
    tmpdir = tempfile.mkdtemp(prefix="mzc05_", dir=os.environ.get("TMPDIR") or "/var/tmp")
    try:
        if d["kind"] == "chain":
            from . import c05_chain

            c05_chain.replay(d, res)
        elif d["kind"] == "kept":
            from . import c05_chain

            c05_chain.replay_kept(d, res)
        elif d["kind"] == "ds":
            run_case((_tup(d["dspec"]), _tup(d["fmt"]), d["transport"]), tmpdir, res)
        else:
            c = d["cspec"]
            run_collection((c[0], c[1], c[2], c[3]), tmpdir, res)
    finally:
        shutil.rmtree(tmpdir, ignore_errors=True)
