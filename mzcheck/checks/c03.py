"""C03 Every item of a generated dataset is a correctly solved maze (DESIGN 5/C03).

Layer 1  every random execution of MazeDataset.generate(cfg) with one item (generator choices x endpoint choices) as an
         explicit-state graph rooted at _generate_maze_helper; plus generate_random_path(**opts) directly for all 200
         endpoint-option sets on every distinct generated maze.
Layer 2  counts/order for n_mazes in {0,1,2,3,5} (deviation-bounded) and real-PRNG runs.
Layer 3  parallel generation: a virtual multiprocessing pool bound into maze_dataset.dataset.maze_dataset; the chooser
         picks the worker for every task (all K^n schedules), for several prior histories; the pool model is validated
         against real multiprocessing pools in fresh subprocesses."""
import itertools
import json
import os
import random as _random
import subprocess
import sys
import time
import pickle
import types

import numpy as np

from .. import choice, explore, refmodel as R
from ..choice import CH, owned_rng
from ..runner import VERIF, digest

GENS = ["gen_dfs", "gen_prim", "gen_wilson", "gen_percolation", "gen_dfs_percolation"]


# ------------------------------------------------------------------ endpoint option sets
def option_sets(n):
    """the 5*5*2*2*2 = 200 option sets of DESIGN C03 for an n x n grid"""
    cells = R.cells(n, n)
    one, two = [cells[0]], [cells[1], cells[-1]]
    outside = [(n - 1, 0)]
    allc = list(cells)
    A = [None, one, two, outside, allc]
    out = []
    for a_s, a_e, ds, de, ne in itertools.product(range(5), range(5), (False, True), (False, True), (False, True)):
        o = {}
        if A[a_s] is not None:
            o["allowed_start"] = [tuple(c) for c in A[a_s]]
        if A[a_e] is not None:
            o["allowed_end"] = [tuple(c) for c in A[a_e]]
        if ds:
            o["deadend_start"] = True
        if de:
            o["deadend_end"] = True
        if ne:
            o["endpoints_not_equal"] = True
        out.append(o)
    return out


def covering_option_sets(n):
    """pairwise-covering subset (every pair of values of every two of the five option axes occurs)"""
    full = option_sets(n)
    idx = list(itertools.product(range(5), range(5), (0, 1), (0, 1), (0, 1)))
    need = set()
    for (i, a), (j, b) in itertools.combinations(list(enumerate([5, 5, 2, 2, 2])), 2):
        for x in range(a):
            for y in range(b):
                need.add((i, x, j, y))
    chosen = []
    remaining = set(need)
    while remaining:
        best, bestcov = None, -1
        for k, t in enumerate(idx):
            cov = sum(1 for (i, x, j, y) in remaining if t[i] == x and t[j] == y)
            if cov > bestcov:
                best, bestcov = k, cov
        chosen.append(best)
        t = idx[best]
        remaining = {(i, x, j, y) for (i, x, j, y) in remaining if not (t[i] == x and t[j] == y)}
    return [full[k] for k in chosen]


def opt_key(o):
    parts = []
    for k in ("allowed_start", "allowed_end"):
        if k in o:
            parts.append(f"{k}[{len(o[k])}]")
    for k in ("deadend_start", "deadend_end", "endpoints_not_equal"):
        if o.get(k):
            parts.append(k)
    return "+".join(parts) or "default"


# ------------------------------------------------------------------ item oracle
def lib_component(cl, meta):
    """the component endpoint sampling is documented to work in: all cells if connected, else the start cell's"""
    adj = R.adjacency(cl)
    if R.is_connected(adj):
        return set(adj), adj
    if meta is not None and meta.get("start_coord") is not None:
        return R.component(adj, tuple(int(x) for x in meta["start_coord"])), adj
    return None, adj


def admissible(cl, meta, opts):
    """reference: (S, E) admissible start/end sets, or None when unknown"""
    C, adj = lib_component(cl, meta)
    if C is None:
        return None
    S = set(C) if opts.get("allowed_start") is None else {tuple(c) for c in opts["allowed_start"]} & C
    E = set(C) if opts.get("allowed_end") is None else {tuple(c) for c in opts["allowed_end"]} & C
    if opts.get("deadend_start"):
        S = {c for c in S if len(adj[c]) == 1}
    if opts.get("deadend_end"):
        E = {c for c in E if len(adj[c]) == 1}
    return S, E


def special(opts):
    return any(opts.get(k) for k in ("allowed_start", "allowed_end", "deadend_start", "deadend_end")) or \
        opts.get("allowed_start") is not None or opts.get("allowed_end") is not None


def judge_item(m, grid_n, opts, res, keyp, rd):
    """m: a SolvedMaze as found in a dataset. returns True if fine"""
    bad = []
    cl = m.connection_list
    if cl.shape != (2, grid_n, grid_n) or cl.dtype != np.bool_:
        res.fail(f"{keyp}|grid_size", f"item has connection_list of shape {cl.shape}, configured grid is {grid_n}", rd)
        return False
    adj = R.adjacency(cl)
    sol = [tuple(int(x) for x in c) for c in np.asarray(m.solution)]
    s, e = tuple(int(x) for x in m.start_pos), tuple(int(x) for x in m.end_pos)
    if not sol or sol[0] != s or sol[-1] != e:
        bad.append(("ends", f"solution {sol} does not run from start_pos {s} to end_pos {e}"))
    elif not R.path_valid(adj, sol):
        bad.append(("walls", f"solution {sol} leaves the grid or crosses a wall"))
    else:
        if len(set(sol)) != len(sol):
            bad.append(("repeat", f"solution {sol} visits a cell twice"))
        d = R.bfs_dist(adj, s).get(e)
        if d is None or len(sol) - 1 != d:
            bad.append(("not_shortest", f"solution has {len(sol) - 1} steps, shortest route has {d}"))
    if s == e and (not special(opts) or opts.get("endpoints_not_equal")):
        bad.append(("equal_endpoints", f"start == end == {s} although the options do not allow it"))
    if opts.get("allowed_start") is not None and s not in {tuple(c) for c in opts["allowed_start"]}:
        bad.append(("allowed_start", f"start {s} not in allowed_start {opts['allowed_start']}"))
    if opts.get("allowed_end") is not None and e not in {tuple(c) for c in opts["allowed_end"]}:
        bad.append(("allowed_end", f"end {e} not in allowed_end {opts['allowed_end']}"))
    if opts.get("deadend_start") and len(adj[s]) != 1:
        bad.append(("deadend_start", f"start {s} has degree {len(adj[s])}, not a dead end"))
    if opts.get("deadend_end") and len(adj[e]) != 1:
        bad.append(("deadend_end", f"end {e} has degree {len(adj[e])}, not a dead end"))
    for suffix, msg in bad:
        res.fail(f"{keyp}|{suffix}", f"{msg}; bits={R.bits_of(cl)} opts={opts}", rd)
    return not bad


def exception_permitted(exc, cl, meta, opts, start_hint=None):
    """documented failures: no admissible endpoints (ValueError), component with < 2 cells for default options"""
    if not isinstance(exc, ValueError):
        return False
    if "could not be found" in str(exc.args[0] if exc.args else ""):
        return False  # the solver failing means the endpoints were not mutually reachable
    adm = admissible(cl, meta, opts)
    if adm is None:
        return True
    S, E = adm
    if not special(opts):
        return len(S) < 2
    if not S or not E:
        return True
    if opts.get("endpoints_not_equal"):
        # some start choice leaves no end: permitted only if that can really happen
        return any(len(E - {s}) == 0 for s in S)
    return False


# ------------------------------------------------------------------ recorder for the maze being sampled
_LAST = {}


def install_recorder():
    from maze_dataset.maze import LatticeMaze

    if getattr(LatticeMaze.generate_random_path, "_mz_rec", False):
        return
    orig = LatticeMaze.generate_random_path

    def generate_random_path(self, *a, **k):
        _LAST["maze"] = self
        return orig(self, *a, **k)

    generate_random_path._mz_rec = True
    generate_random_path._mz_orig = orig
    LatticeMaze.generate_random_path = generate_random_path


def make_cfg(gen, kw, grid_n, n_mazes, opts, seed=42):
    from maze_dataset import MazeDatasetConfig
    from maze_dataset.generation.generators import GENERATORS_MAP

    return MazeDatasetConfig(name="c03", grid_n=grid_n, n_mazes=n_mazes, maze_ctor=GENERATORS_MAP[gen], maze_ctor_kwargs=dict(kw),
                             endpoint_kwargs={k: ([tuple(c) for c in v] if isinstance(v, list) else v) for k, v in opts.items()}, seed=seed)


def kwkey(kw):
    return ",".join(f"{k}={v}" for k, v in sorted(kw.items()))


# ------------------------------------------------------------------ layer 1a: all executions of generate(cfg), one item
def layer1_task(t, res):
    from maze_dataset import MazeDataset

    install_recorder()
    gen, kw, n, opts = t["gen"], t["kw"], t["grid"], t["opts"]
    choice.RAND_FAMILY[0] = choice._rand_family_default
    if t.get("rand") == "effective":
        from .gencheck import effective_rand_family

        choice.RAND_FAMILY[0] = effective_rand_family
    cfg = make_cfg(gen, kw, n, 1, opts)
    keyp = f"C03|generate|{gen}|{kwkey(kw)}|{opt_key(opts)}"
    base = dict(kind="l1", gen=gen, kw=kw, grid=n, opts=opts, rand=t.get("rand"))
    deadline = time.time() + (150 if t["tier"] == "quick" else 1500)

    def on_term(ex):
        res.ev()
        rd = dict(base, answers=ex.answers)
        if ex.exc is not None:
            m = _LAST.get("maze")
            if isinstance(ex.exc, ValueError) and m is not None and exception_permitted(ex.exc, m.connection_list, m.generation_meta, opts):
                res.count("documented_errors")
                return
            res.fail(f"{keyp}|raised|{type(ex.exc).__name__}", f"generate raised {type(ex.exc).__name__}: {str(ex.exc)[:200]} for answers {ex.answers} "
                     f"(maze bits {R.bits_of(m.connection_list) if m is not None else None})", rd)
            return
        ds = ex.out
        if len(ds) != 1 or len(ds.mazes) != 1:
            res.fail(f"{keyp}|count", f"dataset has {len(ds)} items, configured 1", rd)
            return
        if judge_item(ds.mazes[0], n, opts, res, keyp, rd):
            res.nontrivial((gen, kwkey(kw), n, R.bits_of(ds.mazes[0].connection_list), ds.mazes[0].solution.tobytes()))

    def run():
        _LAST.clear()
        return MazeDataset.generate(cfg)

    with owned_rng():
        g = explore.build_state_graph(run, lambda ds: (len(ds), ds.mazes[0].connection_list.tobytes(), ds.mazes[0].solution.tobytes()) if len(ds) == 1 else ("len", len(ds)),
                                      ("_generate_maze_helper",), on_terminal=on_term,
                                      cap_states=200_000 if t["tier"] == "quick" else 2_000_000, deadline=deadline)
    res.count("states", g.n_states)
    res.count("transitions", g.n_transitions)
    res.count("executions", g.executions)
    res.count("unmerged_states", g.unmerged)
    if g.capped:
        res.count("capped_tasks")
    res.add("l1_graphs", (gen, kwkey(kw), n, opt_key(opts), g.n_states, g.n_transitions, len(g.terminals()), g.capped))
    res.sample(dict(layer=1, cfg=dict(gen=gen, kw=kw, grid=n, opts=opts), states=g.n_states, terminals=len(g.terminals()),
                    a_trace=g.rep[g.terminals()[-1]] if g.terminals() else None), cap=2)


# ------------------------------------------------------------------ layer 1b: generate_random_path directly, all option sets
def layer1b_task(t, res):
    """all 200 option sets x every distinct (maze, meta) produced by the generator's execution tree"""
    from .gencheck import _call, effective_rand_family

    gen, kw, n = t["gen"], t["kw"], t["grid"]
    choice.RAND_FAMILY[0] = effective_rand_family if t.get("rand") == "effective" else choice._rand_family_default
    mazes = {}

    def collect(ex):
        if ex.exc is None:
            m = ex.out
            meta = m.generation_meta or {}
            sig = (R.bits_of(m.connection_list), bool(meta.get("fully_connected")),
                   tuple(sorted(tuple(int(x) for x in c) for c in meta["visited_cells"])) if meta.get("visited_cells") is not None else None)
            mazes.setdefault(sig, (m, ex.answers))

    with owned_rng():
        if gen in ("gen_wilson", "gen_prim"):
            explore.build_state_graph(lambda: _call(gen, (n, n), kw), lambda m: m.connection_list.tobytes(), ("gen_wilson" if gen == "gen_wilson" else "gen_dfs",),
                                      on_terminal=collect, cap_states=100_000)
        else:
            explore.explore_stateless(lambda: _call(gen, (n, n), kw), collect)
    sigs = sorted(mazes, key=repr)
    res.add("l1b_distinct_mazes", (gen, kwkey(kw), n, t.get("rand"), len(sigs)))
    sigs = sigs[t["slice"]::t["nslices"]]
    osets = option_sets(n)
    if t.get("osets") == "few":
        # every maze the generator can emit (cyclic and disconnected ones included) under the default options and four special sets
        cells = R.cells(n, n)
        osets = [{}, dict(endpoints_not_equal=True), dict(deadend_start=True, deadend_end=True),
                 dict(allowed_end=[cells[1], cells[-1]], deadend_end=True), dict(allowed_start=[cells[0]], allowed_end=[cells[-1]])]
    for sig in sigs:
        m, gen_answers = mazes[sig]
        for oi, opts in enumerate(osets):
            keyp = f"C03|generate_random_path|{gen}|{kwkey(kw)}|{opt_key(opts)}"

            def on_exec(ex, opts=opts, oi=oi):
                res.ev()
                rd = dict(kind="l1b", gen=gen, kw=kw, grid=n, rand=t.get("rand"), gen_answers=gen_answers, opts=opts, answers=ex.answers)
                if ex.exc is not None:
                    if exception_permitted(ex.exc, m.connection_list, m.generation_meta, opts):
                        res.count("documented_errors")
                        return
                    res.fail(f"{keyp}|raised|{type(ex.exc).__name__}", f"generate_random_path({opts}) on bits={sig[0]} raised {type(ex.exc).__name__}: "
                             f"{str(ex.exc)[:200]} although admissible endpoints exist: {admissible(m.connection_list, m.generation_meta, opts)}", rd)
                    return
                from maze_dataset.maze import SolvedMaze

                sm = SolvedMaze.from_lattice_maze(lattice_maze=m, solution=ex.out)
                if judge_item(sm, n, opts, res, keyp, rd):
                    res.nontrivial((gen, n, sig[0], oi, sm.solution.tobytes()))

            with owned_rng():
                explore.explore_stateless(lambda opts=opts: m.generate_random_path(**{k: ([tuple(c) for c in v] if isinstance(v, list) else v) for k, v in opts.items()}), on_exec)
    res.count("l1b_mazes", len(sigs))


# ------------------------------------------------------------------ layer 2: counts and order
def layer2_task(t, res):
    from maze_dataset import MazeDataset

    gen, kw, n = t["gen"], t["kw"], t["grid"]
    for n_mazes in t["counts"]:
        cfg = make_cfg(gen, kw, n, n_mazes, {})
        keyp = f"C03|generate|{gen}|{kwkey(kw)}|n_mazes"

        def on_exec(ex, n_mazes=n_mazes):
            res.ev()
            rd = dict(kind="l2", gen=gen, kw=kw, grid=n, n_mazes=n_mazes, answers=ex.answers)
            if ex.exc is not None:
                if isinstance(ex.exc, ValueError) and gen in ("gen_percolation", "gen_dfs_percolation"):
                    res.count("documented_errors")
                    return
                res.fail(f"{keyp}|raised|{type(ex.exc).__name__}", f"generate(n_mazes={n_mazes}) raised {type(ex.exc).__name__}: {str(ex.exc)[:200]}", rd)
                return
            ds = ex.out
            if len(ds) != n_mazes or len(ds.mazes) != n_mazes:
                res.fail(f"{keyp}|count", f"dataset has {len(ds)} items, configured {n_mazes}", rd)
            for i, m in enumerate(ds.mazes):
                judge_item(m, n, {}, res, keyp, dict(rd, index=i))
            res.nontrivial((gen, n, n_mazes, tuple(ex.answers)))

        with owned_rng():
            st = explore.explore_stateless(lambda: MazeDataset.generate(cfg), on_exec, dev=t["dev"], max_exec=t.get("max_exec"))
        res.count("l2_executions", st["executions"])
    # two serial generations in one process (real PRNG): the first with endpoint options / other generator arguments, the second plain -
    # every item of the second must honour ITS configuration (default options: distinct endpoints anywhere)
    for seed in t["seeds"][:2]:
        for first_opts, first_kw in ((dict(allowed_start=[(0, 0)], allowed_end=[(0, 0), (0, 1)]), {}), (dict(deadend_start=True, deadend_end=True), {}),
                                     ({}, dict(accessible_cells=3) if gen in ("gen_dfs", "gen_prim", "gen_dfs_percolation") else {})):
            res.ev()
            rd = dict(kind="l2seq", gen=gen, kw=kw, grid=t["grid_real"], seed=seed, first_opts=first_opts, first_kw=first_kw)
            try:
                MazeDataset.generate(make_cfg(gen, dict(kw, **first_kw), t["grid_real"], 3, first_opts, seed=seed + 100))
            except ValueError:
                pass  # the first generation is only history
            try:
                ds = MazeDataset.generate(make_cfg(gen, kw, t["grid_real"], 6, {}, seed=seed))
            except ValueError:
                res.count("documented_errors")
                continue
            if len(ds) != 6:
                res.fail(f"C03|generate|{gen}|{kwkey(kw)}|after_other_generation|count", f"second generation has {len(ds)} items, configured 6", rd)
            for i, m in enumerate(ds.mazes):
                judge_item(m, t["grid_real"], {}, res, f"C03|generate|{gen}|{kwkey(kw)}|after_generation_with_{opt_key(first_opts)}", dict(rd, index=i))
            res.nontrivial(("l2seq", gen, kwkey(kw), seed, opt_key(first_opts), repr(first_kw)))
    # the configured count through the cache: two configurations that differ only in the maze count, requested one after the other over one
    # cache directory (counts that abbreviate alike in the file name, and small ones) - each gets exactly its count
    if gen == "gen_dfs" and t["seeds"]:
        import shutil
        import tempfile

        for na, nb in ((1000, 1030), (5, 8), (1030, 1000)):
            d = tempfile.mkdtemp(prefix="mzc03c.", dir="/var/tmp")
            try:
                for n_req in (na, nb):
                    res.ev()
                    rd = dict(kind="l2cache", gen=gen, kw=kw, grid=2, na=na, nb=nb)
                    try:
                        ds = MazeDataset.from_config(make_cfg(gen, kw, 2, n_req, {}, seed=7), local_base_path=d, do_download=False)
                    except Exception as e:  # noqa: BLE001
                        res.fail(f"C03|from_config|{gen}|n_mazes_neighbours_in_one_cache|raised|{type(e).__name__}", f"from_config(n_mazes={n_req}) after a request for "
                                 f"{na} mazes in the same cache directory raised {type(e).__name__}: {str(e)[:150]}", rd)
                        break
                    if len(ds) != n_req:
                        res.fail(f"C03|from_config|{gen}|n_mazes_neighbours_in_one_cache|count", f"from_config(n_mazes={n_req}) over a cache directory that already served "
                                 f"n_mazes={na} returned {len(ds)} items", rd)
                    for i in (0, len(ds) // 2, len(ds) - 1):
                        judge_item(ds.mazes[i], 2, {}, res, f"C03|from_config|{gen}|cache", dict(rd, index=i))
                res.nontrivial(("l2cache", na, nb))
            finally:
                shutil.rmtree(d, ignore_errors=True)
    # real PRNG: several seeds, every item valid
    for seed in t["seeds"]:
        # counts across the 127/128 and 255/256 boundaries once per generator (first seed), small counts for every seed
        for n_mazes in ((0, 1, 4, 129, 257) if seed == t["seeds"][0] and gen != "gen_percolation" else (0, 1, 4)):
            cfg = make_cfg(gen, kw, t["grid_real"], n_mazes, {}, seed=seed)
            res.ev()
            rd = dict(kind="l2real", gen=gen, kw=kw, grid=t["grid_real"], n_mazes=n_mazes, seed=seed)
            try:
                ds = MazeDataset.generate(cfg)
            except ValueError:
                res.count("documented_errors")
                continue
            if len(ds) != n_mazes:
                res.fail(f"C03|generate|{gen}|{kwkey(kw)}|n_mazes|count", f"real-PRNG generate(seed={seed}) has {len(ds)} items, configured {n_mazes}", rd)
            for i, m in enumerate(ds.mazes):
                judge_item(m, t["grid_real"], {}, res, f"C03|generate|{gen}|{kwkey(kw)}|realprng", dict(rd, index=i))


# ------------------------------------------------------------------ layer 3: virtual pool
class VirtualPool:
    """what the library's parallel path depends on, and nothing else (DESIGN C03 layer 3)"""

    counter = [0]  # the parent's process counter (advances across pools, like multiprocessing's)

    def __init__(self, vmp, processes=None, initializer=None, initargs=(), **kw):
        self.vmp = vmp
        self.K = processes or vmp.default_processes
        self.parent = vmp.snapshot()
        self.workers = []
        for i in range(self.K):
            VirtualPool.counter[0] += 1
            ident = (VirtualPool.counter[0],)
            st = vmp.fork_state(self.parent, ident, i)
            vmp.restore(st)
            if initializer is not None:
                initializer(*initargs)
            self.workers.append(vmp.snapshot())
        vmp.restore(self.parent)

    def __enter__(self):
        return self

    def __exit__(self, *a):
        self.vmp.restore(self.parent)
        return False

    def imap(self, func, iterable, chunksize=1):
        results = []
        for task in list(iterable):
            w = CH.choose(self.K, "pool.worker") if self.K > 1 else 0
            self.vmp.schedule.append(w)
            self.vmp.restore(self.workers[w])
            try:
                # as in a real pool, the task goes to the worker and the result comes back through pickle
                results.append(pickle.loads(pickle.dumps(func(pickle.loads(pickle.dumps(task))))))
            finally:
                self.workers[w] = self.vmp.snapshot()
                self.vmp.restore(self.parent)
        return iter(results)

    map = lambda self, f, it, chunksize=None: list(self.imap(f, it))  # noqa: E731


class VirtualMP(types.ModuleType):
    def __init__(self, md_module, default_processes=2, py_seed_base=0):
        super().__init__("virtual_multiprocessing")
        self.md = md_module
        self.default_processes = default_processes
        self.py_seed_base = py_seed_base
        self.identity = ()
        self.schedule = []
        vmp = self

        class _Proc:
            @property
            def _identity(self):
                return vmp.identity

        self._proc = _Proc()
        self.Pool = lambda *a, **k: VirtualPool(vmp, *a, **k)
        self.Process = lambda *a, **k: "<virtual process>"

    def current_process(self):
        return self._proc

    def snapshot(self):
        return dict(py=_random.getstate(), np=np.random.get_state(), ident=self.identity,
                    wcfg=self.md.__dict__.get("_GLOBAL_WORKER_CONFIG", "<unset>"))

    def restore(self, s):
        _random.setstate(s["py"])
        np.random.set_state(s["np"])
        self.identity = s["ident"]
        if isinstance(s["wcfg"], str):
            self.md.__dict__.pop("_GLOBAL_WORKER_CONFIG", None)
        else:
            self.md._GLOBAL_WORKER_CONFIG = s["wcfg"]

    def fork_state(self, parent, ident, i):
        st = dict(parent, ident=ident)
        # forked children re-seed python's `random` from OS entropy: an environment input, taken from a small set
        r = _random.Random(1000 * self.py_seed_base + i)
        st["py"] = r.getstate()
        return st


def virtual_body(cfg, K, vmp, history):
    """returns fn(): one virtual parallel generation (after the given prior history) in a fresh virtual parent"""
    import maze_dataset.dataset.maze_dataset as MD
    from maze_dataset import MazeDataset

    def body():
        vmp.schedule = []
        VirtualPool.counter[0] = 0
        MD.__dict__.pop("_GLOBAL_WORKER_CONFIG", None)
        vmp.identity = ()
        if history == "after_serial_other":
            MazeDataset.generate(make_cfg("gen_dfs", {}, 5, 1, {}, seed=3))
        elif history == "after_serial_opts":
            # a serial generation of the same shape WITH endpoint options right before: nothing of them may stick
            try:
                MazeDataset.generate(make_cfg(cfg.maze_ctor.__name__, {}, cfg.grid_n, 2, dict(allowed_start=[(0, 0)], allowed_end=[(0, 0), (0, 1)]), seed=9))
            except ValueError:
                pass  # the earlier generation is only history (its own documented errors are judged elsewhere)
        elif history == "after_parallel_neighbour":
            # the same generator and grid with default arguments and default endpoint options, through a pool of the same size:
            # whatever a worker (or the parent) keeps from it must not leak into the generation that follows
            MazeDataset.generate(make_cfg(cfg.maze_ctor.__name__, {}, cfg.grid_n, 2, {}, seed=9), gen_parallel=True, pool_kwargs=dict(processes=K))
            vmp.schedule = []
        elif history == "after_parallel_other":
            MazeDataset.generate(make_cfg("gen_dfs", {}, 4, 1, {}, seed=4), gen_parallel=True, pool_kwargs=dict(processes=1))
            vmp.schedule = []
        return MazeDataset.generate(cfg, gen_parallel=True, pool_kwargs=dict(processes=K))

    return body


def layer3_task(t, res):
    import maze_dataset.dataset.maze_dataset as MD
    from maze_dataset import MazeDataset

    gen, kw, n, n_mazes, K = t["gen"], t["kw"], t["grid"], t["n_mazes"], t["K"]
    cfg = make_cfg(gen, kw, n, n_mazes, t.get("opts", {}), seed=t.get("seed", 42))
    keyp = f"C03|generate_parallel|{gen}|{kwkey(kw)}|{opt_key(t.get('opts', {}))}|{t['history']}"
    vmp = VirtualMP(MD, py_seed_base=t["py_seed_base"])
    body = virtual_body(cfg, K, vmp, t["history"])
    real_mp = MD.multiprocessing
    assert not isinstance(real_mp, VirtualMP)
    MD.multiprocessing = vmp
    outcomes = set()
    try:
        def on_exec(ex):
            res.ev()
            rd = dict(kind="l3", t={k: v for k, v in t.items()}, answers=ex.answers)
            sched = list(vmp.schedule)
            if ex.exc is not None:
                if isinstance(ex.exc, ValueError) and gen in ("gen_percolation", "gen_dfs_percolation") and "could not be found" not in str(ex.exc):
                    res.count("documented_errors")
                    return
                res.fail(f"{keyp}|raised|{type(ex.exc).__name__}", f"parallel generate (K={K}, schedule {sched}) raised {type(ex.exc).__name__}: {str(ex.exc)[:200]}", rd)
                return
            ds = ex.out
            if len(ds) != n_mazes:
                res.fail(f"{keyp}|count", f"parallel generate (K={K}, schedule {sched}) returned {len(ds)} items, configured {n_mazes}", rd)
            for i, m in enumerate(ds.mazes):
                judge_item(m, n, t.get("opts", {}), res, keyp, dict(rd, index=i))
            outcomes.add(digest([(m.connection_list.tobytes(), m.solution.tolist()) for m in ds.mazes]))
            res.nontrivial((gen, kwkey(kw), K, n_mazes, t["history"], t["py_seed_base"], tuple(sched)))
            res.sample(dict(layer=3, gen=gen, K=K, n_mazes=n_mazes, history=t["history"], schedule=sched), cap=2)

        st = explore.explore_stateless(body, on_exec)
        res.count("schedules", st["executions"])
        res.count("states", st["executions"] + st["choice_points"])
        res.count("transitions", st["executions"] + st["choice_points"])
        res.add("l3_outcomes", (gen, kwkey(kw), K, n_mazes, t["history"], t["py_seed_base"], st["executions"], len(outcomes)))
    finally:
        MD.multiprocessing = real_mp
        MD.__dict__.pop("_GLOBAL_WORKER_CONFIG", None)


# ------------------------------------------------------------------ conformance of the pool model against real pools
REAL_CHILD = r"""
import json, sys, warnings
warnings.filterwarnings("ignore")
sys.path.insert(0, sys.argv[1]); sys.path.insert(0, sys.argv[2])
from mzcheck import runner
runner.bind_repo()
from mzcheck.checks import c03
from maze_dataset import MazeDataset
spec = json.loads(sys.argv[3])
cfg = c03.make_cfg(spec["gen"], spec["kw"], spec["grid"], spec["n_mazes"], {}, seed=spec["seed"])
ds = MazeDataset.generate(cfg, gen_parallel=True, pool_kwargs=dict(processes=spec["K"]))
print("ITEMS " + json.dumps([[m.connection_list.astype(int).ravel().tolist(), m.solution.tolist()] for m in ds.mazes]))
"""


def real_pool_items(spec):
    env = dict(os.environ)
    repo = os.environ.get("MZ_REPO", "/repo")
    p = subprocess.run([sys.executable, "-c", REAL_CHILD, str(VERIF), repo, json.dumps(spec)], capture_output=True, text=True, env=env, cwd="/var/tmp",
                       timeout=600)
    for line in p.stdout.splitlines():
        if line.startswith("ITEMS "):
            return json.loads(line[6:])
    raise RuntimeError(f"real pool child failed: {p.stderr[-1500:]}")


def conformance_task(t, res):
    """real multiprocessing.Pool in a fresh interpreter: result must be the virtual result of SOME enumerated schedule"""
    import maze_dataset.dataset.maze_dataset as MD

    spec = t["spec"]
    gen, kw, n, n_mazes, K = spec["gen"], spec["kw"], spec["grid"], spec["n_mazes"], spec["K"]
    items = real_pool_items(spec)
    res.ev()
    keyp = f"C03|generate_parallel_real|{gen}|{kwkey(kw)}"
    rd = dict(kind="conf", t=t)
    from maze_dataset.maze import SolvedMaze

    if len(items) != n_mazes:
        res.fail(f"{keyp}|count", f"real Pool(K={K}) returned {len(items)} items, configured {n_mazes}", rd)
    for i, (clflat, sol) in enumerate(items):
        m = SolvedMaze(connection_list=np.array(clflat, dtype=bool).reshape(2, n, n), solution=np.array(sol))
        judge_item(m, n, {}, res, keyp, dict(rd, index=i))
    if not t.get("match_model"):
        return
    # virtual schedules
    cfg = make_cfg(gen, kw, n, n_mazes, {}, seed=spec["seed"])
    vmp = VirtualMP(MD, py_seed_base=0)
    body = virtual_body(cfg, K, vmp, "fresh")
    real_mp = MD.multiprocessing
    assert not isinstance(real_mp, VirtualMP)
    MD.multiprocessing = vmp
    virt = {}
    try:
        def on_exec(ex):
            if ex.exc is None:
                virt[json.dumps([[m.connection_list.astype(int).ravel().tolist(), m.solution.tolist()] for m in ex.out.mazes])] = list(vmp.schedule)

        explore.explore_stateless(body, on_exec)
    finally:
        MD.multiprocessing = real_mp
        MD.__dict__.pop("_GLOBAL_WORKER_CONFIG", None)
    res.count("conformance_runs")
    key = json.dumps(items)
    if key in virt:
        res.count("conformance_matched")
        res.add("conformance", (gen, K, n_mazes, tuple(virt[key])))
    else:
        # the MODEL is wrong (or the real pool did something the model does not allow): harness limitation, not a property violation
        res.count("conformance_unmatched")
        res.add("conformance_unmatched", (gen, K, n_mazes))


# ------------------------------------------------------------------ run
GEN_KW_L1 = [
    ("gen_dfs", {}), ("gen_dfs", dict(do_forks=False)), ("gen_dfs", dict(accessible_cells=5)), ("gen_dfs", dict(max_tree_depth=3, start_coord=(0, 0))),
    ("gen_prim", {}), ("gen_wilson", {}), ("gen_percolation", dict(p=0.4)), ("gen_dfs_percolation", dict(p=0.4)),
]


def run(ctx):
    quick = ctx.quick
    T1 = []
    for gen, kw in GEN_KW_L1:
        grids = [2, 3]
        if gen in ("gen_wilson", "gen_prim"):
            grids = [2] if quick else [2, 3]
        for n in grids:
            if gen in ("gen_percolation", "gen_dfs_percolation") and n == 3:
                if quick:
                    continue
            osets = covering_option_sets(n) if (quick or n > 2) else option_sets(n)
            if not kw and gen == "gen_dfs" and n == 3 and not quick:
                osets = option_sets(n)
            if kw or gen not in ("gen_dfs", "gen_wilson"):
                osets = osets[:8] if quick else osets
            for o in [{}] + osets:
                T1.append(dict(gen=gen, kw=kw, grid=n, opts=o, tier=ctx.tier, rand=None))
    if not quick:
        T1.append(dict(gen="gen_dfs", kw={}, grid=4, opts={}, tier=ctx.tier))
    ctx.pmap("mzcheck.checks.c03", "layer1_task", T1)
    T1b = []
    for gen, kw, n, ns in [("gen_dfs", {}, 2, 1), ("gen_dfs", {}, 3, 8), ("gen_dfs", dict(accessible_cells=4), 3, 6), ("gen_wilson", {}, 2, 1),
                           ("gen_percolation", dict(p=0.4), 2, 2), ("gen_dfs_percolation", dict(p=0.4), 2, 2)] + \
            ([] if quick else [("gen_wilson", {}, 3, 16), ("gen_dfs", dict(do_forks=False), 3, 4), ("gen_percolation", dict(p=0.4), 3, 16)]):
        for sl in range(ns):
            T1b.append(dict(gen=gen, kw=kw, grid=n, slice=sl, nslices=ns, tier=ctx.tier, rand=None))
    # every 3x3 graph as a percolation output (all 4096 edge patterns x boundary bits, the only generator with cyclic AND disconnected
    # outputs) x every start_coord answer, under a few option sets: every answer of generate_random_path must be a shortest path
    if quick:
        for sl in range(16):
            T1b.append(dict(gen="gen_percolation", kw=dict(p=0.4), grid=3, slice=sl, nslices=16, tier=ctx.tier, rand="effective", osets="few"))
    else:
        for sl in range(32):
            T1b.append(dict(gen="gen_percolation", kw=dict(p=0.4), grid=3, slice=sl, nslices=32, tier=ctx.tier, rand="effective"))
    ctx.pmap("mzcheck.checks.c03", "layer1b_task", T1b)
    T2 = []
    for gen, kw in [("gen_dfs", {}), ("gen_prim", {}), ("gen_wilson", {}), ("gen_percolation", dict(p=0.8)), ("gen_dfs_percolation", dict(p=0.3))]:
        # Wilson's walk does not terminate under the all-default answer sequence: its counts are covered with real PRNG seeds only
        T2.append(dict(gen=gen, kw=kw, grid=2 if gen in ("gen_wilson", "gen_prim") else 3, counts=[] if gen == "gen_wilson" else [0, 1, 2, 3, 5], dev=1, seeds=[0, 1, 2, 3, 4, 5] if not quick else [0, 1, 2],
                       grid_real=4, tier=ctx.tier, max_exec=20000))
    ctx.pmap("mzcheck.checks.c03", "layer2_task", T2)
    T3 = []
    for gen, kw in [("gen_dfs", {}), ("gen_wilson", {}), ("gen_percolation", dict(p=0.9)), ("gen_dfs_percolation", dict(p=0.3)), ("gen_prim", {})]:
        for hist in ("fresh", "after_serial_other", "after_parallel_other"):
            for K, n_mazes in ([(1, 3), (2, 4), (3, 4)] if quick else [(1, 3), (2, 4), (3, 4), (2, 5), (4, 5)]):
                for e in ((0,) if quick and hist != "fresh" else (0, 1, 2)):
                    T3.append(dict(gen=gen, kw=kw, grid=3, n_mazes=n_mazes, K=K, history=hist, py_seed_base=e, tier=ctx.tier))
    for gen in ("gen_dfs", "gen_wilson"):
        T3.append(dict(gen=gen, kw={}, grid=3, n_mazes=3, K=2, history="after_serial_opts", py_seed_base=0, tier=ctx.tier))
    # endpoint options and generator arguments through the pool, fresh and after a default-argument generation of the same shape
    for gen, kw, opts in [("gen_dfs", {}, dict(deadend_start=True, endpoints_not_equal=True)), ("gen_prim", {}, dict(allowed_start=[(0, 0)], allowed_end=[(2, 2)])),
                          ("gen_dfs", dict(do_forks=False), dict(endpoints_not_equal=True)),
                          ("gen_dfs_percolation", dict(p=0.3), dict(allowed_end=[(0, 1), (2, 2)], endpoints_not_equal=True)), ("gen_wilson", {}, dict(deadend_start=True, deadend_end=True, endpoints_not_equal=True))]:
        for hist in ("fresh", "after_parallel_neighbour"):
            for K, n_mazes in ([(2, 3)] if quick else [(1, 3), (2, 3), (3, 4)]):
                T3.append(dict(gen=gen, kw=kw, grid=3, n_mazes=n_mazes, K=K, history=hist, py_seed_base=0, tier=ctx.tier, opts=opts))
    ctx.pmap("mzcheck.checks.c03", "layer3_task", T3)
    TC = []
    for gen, kw, match in [("gen_wilson", {}, True), ("gen_percolation", dict(p=0.9), True), ("gen_dfs", {}, False)]:
        for K in ((1, 2) if quick else (1, 2, 3)):
            for rep in range(1 if quick else 3):
                TC.append(dict(spec=dict(gen=gen, kw=kw, grid=3, n_mazes=4, K=K, seed=42 + rep), match_model=match, rep=rep))
    ctx.pmap("mzcheck.checks.c03", "conformance_task", TC)
    c = ctx.res.counters
    ctx.coverage.update(
        states=c.get("states", 0), transitions=c.get("transitions", 0),
        traces_validated_against_impl=c.get("executions", 0) + c.get("schedules", 0) + c.get("l2_executions", 0) + c.get("conformance_runs", 0),
        schedules=c.get("schedules", 0), layer1_graphs=len(ctx.res.sets.get("l1_graphs", ())), layer1b_mazes=c.get("l1b_mazes", 0), layer1b_distinct_mazes_per_generator=sorted(ctx.res.sets.get("l1b_distinct_mazes", ()), key=repr),
        layer3=sorted(ctx.res.sets.get("l3_outcomes", ()), key=repr)[:40],
        conformance=dict(runs=c.get("conformance_runs", 0), matched=c.get("conformance_matched", 0), unmatched=c.get("conformance_unmatched", 0),
                         matched_schedules=sorted(ctx.res.sets.get("conformance", ()), key=repr)),
        capped=c.get("capped_tasks", 0) > 0, documented_errors=c.get("documented_errors", 0))
    ctx.rule = ("layer 1: complete state graph of generate(cfg, n_mazes=1) under the choice oracle for generator x kwargs x endpoint-option sets, and every answer of "
                "generate_random_path for all 200 option sets on every distinct generated maze; layer 2: n_mazes in {0,1,2,3,5} with <= 1 deviation + real PRNG seeds; "
                "layer 3: all K^n task->worker schedules of a virtual pool x 3 histories x 3 worker-random seedings; distinct = distinct items / schedules")
    ctx.exhaustive = c.get("capped_tasks", 0) == 0
    ctx.assumptions += ["pool model: K forked workers (copies of the parent's RNG state and module globals), initializer once per worker with identity counter+i, "
                        "imap hands each task to any worker, results in task order; validated against real pools for numpy-only generators",
                        "python `random` state of forked children is an environment input taken from a 3-element seed set",
                        "maxtasksperchild, spawn/forkserver contexts and worker death are out of bound"]
    if c.get("conformance_unmatched", 0):
        print(f"NOTE: {c['conformance_unmatched']} real-pool runs matched no virtual schedule (model limitation, see evidence)")


def replay(d, res):
    k = d["kind"]
    if k == "l1":
        from maze_dataset import MazeDataset

        install_recorder()
        opts = {kk: ([tuple(c) for c in v] if isinstance(v, list) else v) for kk, v in d["opts"].items()}
        kw = dict(d["kw"])
        if kw.get("start_coord") is not None:
            kw["start_coord"] = tuple(kw["start_coord"])
        t = dict(gen=d["gen"], kw=kw, grid=d["grid"], opts=opts, tier="quick", rand=d.get("rand"))
        if d.get("rand") == "effective":
            from .gencheck import effective_rand_family

            choice.RAND_FAMILY[0] = effective_rand_family
        cfg = make_cfg(t["gen"], kw, t["grid"], 1, opts)
        keyp = f"C03|generate|{t['gen']}|{kwkey(kw)}|{opt_key(opts)}"
        _LAST.clear()
        with owned_rng():
            ex = explore.run_with(d["answers"], lambda: MazeDataset.generate(cfg))
        if ex.exc is not None:
            m = _LAST.get("maze")
            if not (isinstance(ex.exc, ValueError) and m is not None and exception_permitted(ex.exc, m.connection_list, m.generation_meta, opts)):
                res.fail(f"{keyp}|raised|{type(ex.exc).__name__}", f"raised {ex.exc!r}", d)
            return
        if len(ex.out) != 1:
            res.fail(f"{keyp}|count", "count", d)
            return
        judge_item(ex.out.mazes[0], t["grid"], opts, res, keyp, d)
    elif k == "l1b":
        from .gencheck import _call, effective_rand_family
        from maze_dataset.maze import SolvedMaze

        choice.RAND_FAMILY[0] = effective_rand_family if d.get("rand") == "effective" else choice._rand_family_default
        kw = dict(d["kw"])
        opts = {kk: ([tuple(c) for c in v] if isinstance(v, list) else v) for kk, v in d["opts"].items()}
        n = d["grid"]
        with owned_rng():
            m = explore.run_with(d["gen_answers"], lambda: _call(d["gen"], (n, n), kw)).out
            ex = explore.run_with(d["answers"], lambda: m.generate_random_path(**opts))
        keyp = f"C03|generate_random_path|{d['gen']}|{kwkey(kw)}|{opt_key(opts)}"
        if ex.exc is not None:
            if not exception_permitted(ex.exc, m.connection_list, m.generation_meta, opts):
                res.fail(f"{keyp}|raised|{type(ex.exc).__name__}", f"raised {ex.exc!r}", d)
            return
        judge_item(SolvedMaze.from_lattice_maze(lattice_maze=m, solution=ex.out), n, opts, res, keyp, d)
    elif k == "l2cache":
        t = dict(gen=d["gen"], kw=dict(d["kw"]), grid=d["grid"], counts=[], dev=1, seeds=[0], grid_real=2, tier="quick", max_exec=20000)
        layer2_task(t, res)
    elif k == "l2seq":
        t = dict(gen=d["gen"], kw=dict(d["kw"]), grid=d["grid"], counts=[], dev=1, seeds=[d["seed"], d["seed"]], grid_real=d["grid"], tier="quick", max_exec=20000)
        layer2_task(t, res)
    elif k in ("l2", "l2real"):
        t = dict(gen=d["gen"], kw=dict(d["kw"]), grid=d["grid"], counts=[d["n_mazes"]] if k == "l2" else [], dev=1, seeds=[d["seed"]] if k == "l2real" else [],
                 grid_real=d["grid"], tier="quick", max_exec=20000)
        layer2_task(t, res)
    elif k == "l3":
        t = dict(d["t"])
        t["kw"] = dict(t["kw"])
        layer3_task(t, res)
    elif k == "conf":
        conformance_task(d["t"], res)
