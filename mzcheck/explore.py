"""Explorers over the choice oracle: stateless exhaustive DFS, deviation-bounded DFS,
explicit-state BFS (program-state merging) and the absorption solver."""

from __future__ import annotations

import collections
import time

import numpy as np

from . import choice
from .choice import CH, HarnessError, Opaque, Prune


class Execution:
    __slots__ = ("out", "exc", "trace")

    def __init__(self, out, exc, trace):
        self.out, self.exc, self.trace = out, exc, trace

    @property
    def answers(self):
        return [t[2] for t in self.trace]


def run_with(prefix, fn, expect=None) -> Execution:
    """one execution of fn() under the chooser with the given answer prefix"""
    CH.reset(prefix, expect)
    try:
        out = fn()
        exc = None
    except Prune:
        raise
    except HarnessError:
        raise
    except Exception as e:  # library exceptions are outcomes, judged by the oracle
        out, exc = None, e
    return Execution(out, exc, list(CH.trace))


def explore_stateless(fn, on_exec, dev: int | None = None, max_exec: int | None = None,
                      deadline: float | None = None):
    """exhaustive DFS over answer sequences (all of them, or those with <= dev non-default answers).

    on_exec(Execution) is called for every complete execution.
    returns dict(executions=, capped=, max_depth=, choice_points=)"""
    stack: list[tuple[list[int], list[tuple[str, int]]]] = [([], [])]
    n = 0
    capped = False
    max_depth = 0
    points = 0
    while stack:
        prefix, expect = stack.pop()
        ex = run_with(prefix, fn, expect)
        n += 1
        tr = ex.trace
        max_depth = max(max_depth, len(tr))
        on_exec(ex)
        answers = [t[2] for t in tr]
        kinds = [(t[0], t[1]) for t in tr]
        devs_before = sum(1 for a in answers[: len(prefix)] if a != 0)
        # points at index >= len(prefix) all answered 0
        for i in range(len(tr) - 1, len(prefix) - 1, -1):
            points += 1
            ar = tr[i][1]
            if ar <= 1:
                continue
            if dev is not None and devs_before + 1 > dev:
                continue
            base = answers[:i]
            for alt in range(ar - 1, 0, -1):
                stack.append((base + [alt], kinds[: i + 1]))
        if max_exec is not None and n >= max_exec and stack:
            capped = True
            break
        if deadline is not None and time.time() > deadline and stack:
            capped = True
            break
    return dict(executions=n, capped=capped, max_depth=max_depth, choice_points=points,
                pending=len(stack))


class StateGraph:
    """explicit-state graph of a randomized function: nodes are captured program states at
    choice points and terminal outputs; every edge is one answer of one real execution."""

    def __init__(self):
        self.ids: dict = {}
        self.kind: list[str] = []  # 'S' | 'T' | 'U' (unmerged/opaque state)
        self.rep: list[list[int]] = []  # representative answer prefix
        self.arity: list[int] = []
        self.edges: dict[int, list[int]] = {}
        self.term_out: dict[int, object] = {}
        self.weights: dict[int, tuple] = {}  # non-uniform choice points (np.random.choice(p=...))
        self.executions = 0
        self.capped = False
        self.unmerged = 0
        self.root = None

    @property
    def n_states(self):
        return len(self.kind)

    @property
    def n_transitions(self):
        return sum(len(v) for v in self.edges.values())

    def terminals(self):
        return [i for i, k in enumerate(self.kind) if k == "T"]


def build_state_graph(fn, term_key, root_names, lib_marker="maze_dataset", on_terminal=None,
                      cap_states=300_000, deadline=None, exc_key=None) -> StateGraph:
    """BFS over program states of fn().

    fn() -> output ; term_key(output) -> hashable identifying the terminal.
    on_terminal(Execution) is called for *every* execution that runs to completion."""
    g = StateGraph()
    frontier = collections.deque()
    captured = {}

    def hook(ch, n, kind):
        try:
            key = ("S", choice.capture_state(root_names, lib_marker))
        except Opaque:
            key = None
        captured["s"] = (key, n, kind, ch.last_weights)
        raise Prune()

    def run_prefix(prefix):
        captured.clear()
        CH.state_hook = hook
        try:
            try:
                ex = run_with(prefix, fn)
            finally:
                CH.state_hook = None
            g.executions += 1
            if on_terminal is not None:
                on_terminal(ex)
            if ex.exc is not None:
                k = ("X", exc_key(ex.exc) if exc_key else (type(ex.exc).__name__, str(ex.exc)[:200]))
            else:
                k = ("T", term_key(ex.out))
            return k, None, ex
        except Prune:
            g.executions += 1
            key, n, kind, w = captured["s"]
            return key, (n, kind, w), None

    def intern(key, info, prefix, ex):
        if key is None:  # opaque: never merged
            g.unmerged += 1
            key = ("U", tuple(prefix))
        if key not in g.ids:
            i = len(g.kind)
            g.ids[key] = i
            g.kind.append("T" if key[0] in ("T", "X") else "S")
            g.rep.append(list(prefix))
            g.arity.append(info[0] if info else 0)
            if info:
                frontier.append(i)
                if info[2] is not None:
                    g.weights[i] = tuple(info[2])
            else:
                g.term_out[i] = ex.out if ex.exc is None else ex.exc
            return i
        i = g.ids[key]
        if info and g.arity[i] != info[0]:
            raise HarnessError(
                f"unsound merge: state re-reached with arity {info[0]} != {g.arity[i]} ({info[1]})"
            )
        return i

    key, info, ex = run_prefix([])
    g.root = intern(key, info, [], ex)
    while frontier:
        if g.n_states > cap_states or (deadline is not None and time.time() > deadline):
            g.capped = True
            break
        sid = frontier.popleft()
        prefix = g.rep[sid]
        outs = []
        for a in range(g.arity[sid]):
            p = prefix + [a]
            key, info, ex = run_prefix(p)
            outs.append(intern(key, info, p, ex))
        g.edges[sid] = outs
    return g


def absorb(g: StateGraph, tol=1e-15, iters=1_000_000):
    """mass propagation on the Markov chain (each answer of an arity-n point has prob 1/n).
    returns (dict terminal_id -> absorbed mass, residual mass, iterations).
    States left unexpanded by a cap keep their mass in `residual`."""
    n = g.n_states
    rows, cols, vals = [], [], []
    for s, outs in g.edges.items():
        ws = g.weights.get(s) or [1.0 / len(outs)] * len(outs)
        for t, w in zip(outs, ws):
            rows.append(t)
            cols.append(s)
            vals.append(w)
    rows = np.array(rows, dtype=np.int64)
    cols = np.array(cols, dtype=np.int64)
    vals = np.array(vals)
    sink = np.array([i for i in range(n) if i not in g.edges], dtype=np.int64)
    mass = np.zeros(n)
    mass[g.root] = 1.0
    absorbed = np.zeros(n)
    it = 0
    if g.root in set(sink.tolist()):
        absorbed[g.root] = 1.0
        mass[:] = 0
    while mass.sum() > tol and it < iters:
        mass = np.bincount(rows, weights=vals * mass[cols], minlength=n) if len(rows) else np.zeros(n)
        absorbed[sink] += mass[sink]
        mass[sink] = 0
        it += 1
    term = {i: absorbed[i] for i in g.terminals()}
    unexpanded = float(sum(absorbed[i] for i in sink.tolist() if g.kind[i] != "T"))
    return term, float(mass.sum()) + unexpanded, it


def all_reach_terminal(g: StateGraph) -> bool:
    """from every expanded state some terminal is reachable (no trap component)"""
    rev = collections.defaultdict(list)
    for s, outs in g.edges.items():
        for t in outs:
            rev[t].append(s)
    seen = set(g.terminals())
    dq = collections.deque(seen)
    while dq:
        x = dq.popleft()
        for y in rev[x]:
            if y not in seen:
                seen.add(y)
                dq.append(y)
    return all(s in seen for s in g.edges)
