"""Deliberately boring reference model of lattice mazes: dict adjacency, BFS, enumeration.
Nothing here imports maze_dataset."""

from __future__ import annotations

import collections
import itertools

import numpy as np

Cell = tuple[int, int]


# ---------------------------------------------------------------- lattice / graph space
def lattice_edges(r: int, c: int) -> list[tuple[int, int, int]]:
    """all in-grid edges as (dim, i, j): dim 0 = (i,j)-(i+1,j), dim 1 = (i,j)-(i,j+1)"""
    out = []
    for i in range(r):
        for j in range(c):
            if i + 1 < r:
                out.append((0, i, j))
            if j + 1 < c:
                out.append((1, i, j))
    return out


def edge_cells(e) -> tuple[Cell, Cell]:
    d, i, j = e
    return ((i, j), (i + 1, j)) if d == 0 else ((i, j), (i, j + 1))


def graph_from_bits(r: int, c: int, bits: int) -> np.ndarray:
    cl = np.zeros((2, r, c), dtype=np.bool_)
    for k, (d, i, j) in enumerate(lattice_edges(r, c)):
        if (bits >> k) & 1:
            cl[d, i, j] = True
    return cl


def n_graphs(r: int, c: int) -> int:
    return 1 << len(lattice_edges(r, c))


def all_graphs(r: int, c: int):
    for b in range(n_graphs(r, c)):
        yield b, graph_from_bits(r, c, b)


def cells(r: int, c: int) -> list[Cell]:
    return [(i, j) for i in range(r) for j in range(c)]


def adjacency(cl) -> dict[Cell, set[Cell]]:
    """adjacency read edge by edge from a bool[2,r,c] array (entries on the boundary that
    would leave the grid are *ignored* here; well-formedness is judged separately)"""
    cl = np.asarray(cl)
    _, r, c = cl.shape
    adj: dict[Cell, set[Cell]] = {(i, j): set() for i in range(r) for j in range(c)}
    for i in range(r):
        for j in range(c):
            if i + 1 < r and bool(cl[0, i, j]):
                adj[(i, j)].add((i + 1, j))
                adj[(i + 1, j)].add((i, j))
            if j + 1 < c and bool(cl[1, i, j]):
                adj[(i, j)].add((i, j + 1))
                adj[(i, j + 1)].add((i, j))
    return adj


def edge_set(cl) -> set[frozenset]:
    adj = adjacency(cl)
    return {frozenset((a, b)) for a in adj for b in adj[a]}


def boundary_clean(cl) -> bool:
    cl = np.asarray(cl)
    return (not cl[0, -1, :].any()) and (not cl[1, :, -1].any())


def bfs_dist(adj, s: Cell) -> dict[Cell, int]:
    dist = {s: 0}
    dq = collections.deque([s])
    while dq:
        x = dq.popleft()
        for y in adj[x]:
            if y not in dist:
                dist[y] = dist[x] + 1
                dq.append(y)
    return dist


def component(adj, s: Cell) -> set[Cell]:
    return set(bfs_dist(adj, s))


def components(adj) -> list[set[Cell]]:
    seen, out = set(), []
    for v in adj:
        if v not in seen:
            comp = component(adj, v)
            seen |= comp
            out.append(comp)
    return out


def n_edges(adj) -> int:
    return sum(len(v) for v in adj.values()) // 2


def is_connected(adj) -> bool:
    return len(components(adj)) == 1


def is_forest(adj) -> bool:
    return n_edges(adj) == len(adj) - len(components(adj))


def is_spanning_tree(adj) -> bool:
    return is_connected(adj) and n_edges(adj) == len(adj) - 1


def degree(adj, v: Cell) -> int:
    return len(adj[v])


def all_shortest_paths(adj, s: Cell, e: Cell) -> list[list[Cell]]:
    dist = bfs_dist(adj, s)
    if e not in dist:
        return []
    out = []

    def rec(path):
        x = path[-1]
        if x == s:
            out.append(path[::-1])
            return
        for y in adj[x]:
            if dist.get(y, -1) == dist[x] - 1:
                rec(path + [y])

    rec([e])
    return out


def simple_paths(adj, s: Cell, max_cells: int):
    """every simple path starting at s with 1..max_cells cells"""
    out = []

    def rec(path):
        out.append(list(path))
        if len(path) >= max_cells:
            return
        for y in sorted(adj[path[-1]]):
            if y not in path:
                path.append(y)
                rec(path)
                path.pop()

    rec([s])
    return out


def path_valid(adj, path) -> bool:
    if len(path) == 0:
        return False
    for a in path:
        if tuple(a) not in adj:
            return False
    return all(tuple(b) in adj[tuple(a)] for a, b in zip(path[:-1], path[1:]))


_TREE_CACHE: dict = {}


def trees(r: int, c: int) -> list[int]:
    """bit codes of all spanning trees of the r x c lattice (by brute force)"""
    key = (r, c)
    if key not in _TREE_CACHE:
        edges = lattice_edges(r, c)
        n = r * c
        out = []
        if n == 1:
            out = [0]
        else:
            for combo in itertools.combinations(range(len(edges)), n - 1):
                # union-find acyclicity
                parent = list(range(n))

                def find(x):
                    while parent[x] != x:
                        parent[x] = parent[parent[x]]
                        x = parent[x]
                    return x

                ok = True
                for k in combo:
                    a, b = edge_cells(edges[k])
                    ra, rb = find(a[0] * c + a[1]), find(b[0] * c + b[1])
                    if ra == rb:
                        ok = False
                        break
                    parent[ra] = rb
                if ok:
                    bits = 0
                    for k in combo:
                        bits |= 1 << k
                    out.append(bits)
        _TREE_CACHE[key] = out
    return _TREE_CACHE[key]


def matrix_tree_count(r: int, c: int) -> int:
    """Kirchhoff: number of spanning trees of the full r x c lattice"""
    n = r * c
    if n == 1:
        return 1
    L = np.zeros((n, n))
    for e in lattice_edges(r, c):
        a, b = edge_cells(e)
        ia, ib = a[0] * c + a[1], b[0] * c + b[1]
        L[ia, ia] += 1
        L[ib, ib] += 1
        L[ia, ib] -= 1
        L[ib, ia] -= 1
    return int(round(np.linalg.det(L[1:, 1:])))


def bits_of(cl) -> int:
    cl = np.asarray(cl)
    _, r, c = cl.shape
    b = 0
    for k, (d, i, j) in enumerate(lattice_edges(r, c)):
        if cl[d, i, j]:
            b |= 1 << k
    return b


# ---------------------------------------------------------------- rasters
WALL, OPEN, START, END, PATH = (0, 0, 0), (255, 255, 255), (0, 255, 0), (255, 0, 0), (0, 0, 255)
ASCII = {WALL: "#", OPEN: " ", START: "S", END: "E", PATH: "X"}


def raster(cl, start=None, end=None, solution=None) -> list[list[tuple]]:
    """reference pixel image as a list of rows of RGB tuples"""
    cl = np.asarray(cl)
    _, r, c = cl.shape
    img = [[WALL for _ in range(2 * c + 1)] for _ in range(2 * r + 1)]
    adj = adjacency(cl)
    for (i, j) in adj:
        img[2 * i + 1][2 * j + 1] = OPEN
        for (k, l) in adj[(i, j)]:
            img[i + k + 1][j + l + 1] = OPEN
    if solution is not None:
        sol = [tuple(int(x) for x in p) for p in solution]
        for (i, j) in sol:
            img[2 * i + 1][2 * j + 1] = PATH
        for (i, j), (k, l) in zip(sol[:-1], sol[1:]):
            img[i + k + 1][j + l + 1] = PATH
    if start is not None:
        img[2 * int(start[0]) + 1][2 * int(start[1]) + 1] = START
    if end is not None:
        img[2 * int(end[0]) + 1][2 * int(end[1]) + 1] = END
    return img


def raster_array(img) -> np.ndarray:
    return np.array(img, dtype=np.uint8)


def ascii_of(img) -> str:
    return "\n".join("".join(ASCII[tuple(px)] for px in row) for row in img)


def manhattan(a, b) -> int:
    return abs(int(a[0]) - int(b[0])) + abs(int(a[1]) - int(b[1]))
