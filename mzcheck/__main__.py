import argparse
import os
import sys


def main():
    ap = argparse.ArgumentParser(prog="mzcheck")
    sub = ap.add_subparsers(dest="cmd", required=True)
    r = sub.add_parser("run")
    r.add_argument("prop")
    r.add_argument("--tier", default=os.environ.get("VERIF_TIER", "quick"), choices=["quick", "thorough"])
    r.add_argument("--seed", type=int, default=int(os.environ.get("VERIF_SEED", "0") or 0))
    p = sub.add_parser("replay")
    p.add_argument("path")
    sub.add_parser("selftest")
    a = ap.parse_args()

    # reproducible hashing in this process and every child (a replay file may name the hash seed its violation was found under)
    want_hs = "0"
    if a.cmd == "replay":
        try:
            import json

            want_hs = str(json.load(open(a.path)).get("hashseed", "0"))
        except Exception:  # noqa: BLE001
            want_hs = "0"
    if os.environ.get("PYTHONHASHSEED") != want_hs:
        os.environ["PYTHONHASHSEED"] = want_hs
        os.execv(sys.executable, [sys.executable, "-m", "mzcheck"] + sys.argv[1:])

    from . import runner

    if a.cmd == "run":
        sys.exit(runner.run_check(a.prop.upper(), a.tier, a.seed))
    if a.cmd == "replay":
        sys.exit(runner.run_replay(a.path))
    if a.cmd == "selftest":
        from . import selftest

        sys.exit(selftest.main())


if __name__ == "__main__":
    main()
