"""Choice oracle: every RNG primitive the library uses becomes ONE choice point of finite arity.

The shims are bound *locally* into the library modules (module globals `random`, `np`,
`numpy_rng`) by `owned_rng()`; nothing inside numpy/torch/matplotlib is touched.
"""

from __future__ import annotations

import contextlib
import functools
import itertools
import math
import random as _real_random
import sys

import numpy as _np


class Prune(BaseException):
    """abort the current execution (BaseException so that `except Exception` in the
    library cannot swallow it)"""


class HarnessError(Exception):
    """nondeterminism / replay divergence / unsound merge -- never a property violation"""


class Chooser:
    """replays `prefix`, answers 0 afterwards, records `trace` = [(kind, arity, answer)]"""

    def __init__(self):
        self.prefix: list[int] = []
        self.trace: list[tuple[str, int, int]] = []
        self.state_hook = None  # called at every *fresh* choice point (explicit-state mode)
        self.expect: list[tuple[str, int]] | None = None  # kinds/arity expected while replaying
        self.unowned_draws = 0
        self.last_weights = None
        self.max_points = 100000

    def reset(self, prefix, expect=None):
        self.prefix = list(prefix)
        self.trace = []
        self.expect = expect

    def choose(self, n: int, kind: str, weights=None) -> int:
        """one choice point of arity n; `weights` (len n, sum 1) only matter to the Markov-chain analysis"""
        self.last_weights = weights
        n = int(n)
        if n < 1:
            raise HarnessError(f"choice point with arity {n} ({kind})")
        i = len(self.trace)
        if i >= self.max_points:
            raise HarnessError(f"more than {self.max_points} choice points in one execution")
        if i < len(self.prefix):
            c = self.prefix[i]
            if c >= n and getattr(self, "scripted", False):
                c = c % n  # a scripted probe (not a replay of a recorded execution): the script is a policy, folded into the range
            if c >= n:
                raise HarnessError(
                    f"NONDETERMINISM: replayed answer {c} out of range for arity {n} ({kind}) at point {i}"
                )
            if self.expect is not None and i < len(self.expect):
                ek, en = self.expect[i]
                if ek != kind or en != n:
                    raise HarnessError(
                        f"NONDETERMINISM: replay diverged at point {i}: expected {(ek, en)}, got {(kind, n)}"
                    )
        else:
            c = 0
            if self.state_hook is not None:
                self.state_hook(self, n, kind)
        self.trace.append((kind, n, c))
        return c

    def answers(self) -> list[int]:
        return [t[2] for t in self.trace]


CH = Chooser()

# exhaustive thresholds (see DESIGN 2.1)
PERM_FULL_MAX = 4  # all n! permutations for n <= this
FLIP_FULL_MAX = 8  # all 2^E flip vectors for E <= this
RAND_FULL_MAX = 12  # all 2^k bit vectors for rand() arrays with k <= this

_fallback = _np.random.RandomState(12345)
_fallback_py = _real_random.Random(12345)

HI = 1.0 - 2.0**-53  # largest double below 1.0


def _decode_mixed(c: int, spans: list[int]) -> list[int]:
    out = [0] * len(spans)
    for j in range(len(spans) - 1, -1, -1):
        out[j] = c % spans[j]
        c //= spans[j]
    return out


# ---------------------------------------------------------------- permutation families
class _LazyPerms:
    """the bounded permutation family of n > PERM_FULL_MAX items as a read-only sequence: identity, reversal, the n-1 adjacent
    transpositions, the n-1 rotations - same members, same indices as the explicit list, built on demand (the explicit list holds
    2n tuples of n integers: 7 GB for the 9800 edges of a 50x50 lattice listed in both directions)"""

    def __init__(self, n: int):
        self.n = n

    def __len__(self):
        return 2 * self.n

    def __getitem__(self, k: int) -> tuple[int, ...]:
        n = self.n
        if k < 0:
            k += 2 * n
        if not 0 <= k < 2 * n:
            raise IndexError(k)
        if k == 0:
            return tuple(range(n))
        if k == 1:
            return tuple(range(n - 1, -1, -1))
        if k <= n:
            i = k - 2
            p = list(range(n))
            p[i], p[i + 1] = p[i + 1], p[i]
            return tuple(p)
        r = k - n
        return tuple(range(r, n)) + tuple(range(r))

    def __iter__(self):
        return (self[k] for k in range(2 * self.n))


class _LazyFlips:
    """the bounded flip family of e > FLIP_FULL_MAX items: all 0, all 1, each single 1, alternating 0101.., alternating 1010.."""

    def __init__(self, e: int):
        self.e = e

    def __len__(self):
        return self.e + 4

    def __getitem__(self, k: int) -> tuple[int, ...]:
        e = self.e
        if k < 0:
            k += e + 4
        if not 0 <= k < e + 4:
            raise IndexError(k)
        if k == 0:
            return (0,) * e
        if k == 1:
            return (1,) * e
        if k < e + 2:
            i = k - 2
            return (0,) * i + (1,) + (0,) * (e - i - 1)
        return tuple((i + (k - e - 2)) % 2 for i in range(e))

    def __iter__(self):
        return (self[k] for k in range(self.e + 4))


LAZY_FAMILY_FROM = 32  # explicit lists below this size (cheap, and cached), lazy sequences from it on


@functools.lru_cache(maxsize=256)
def perm_family(n: int):
    """all n! for n <= PERM_FULL_MAX, else identity, reversal, adjacent transpositions, rotations"""
    if n <= PERM_FULL_MAX:
        return list(itertools.permutations(range(n)))
    if n >= LAZY_FAMILY_FROM:
        return _LazyPerms(n)
    fam = [tuple(range(n)), tuple(range(n - 1, -1, -1))]
    for i in range(n - 1):
        p = list(range(n))
        p[i], p[i + 1] = p[i + 1], p[i]
        fam.append(tuple(p))
    for k in range(1, n):
        fam.append(tuple((i + k) % n for i in range(n)))
    seen, out = set(), []
    for p in fam:
        if p not in seen:
            seen.add(p)
            out.append(p)
    return out


@functools.lru_cache(maxsize=256)
def flip_family(e: int):
    if e <= FLIP_FULL_MAX:
        return list(itertools.product((0, 1), repeat=e))
    if e >= LAZY_FAMILY_FROM:
        return _LazyFlips(e)
    fam = [tuple([0] * e), tuple([1] * e)]
    for i in range(e):
        v = [0] * e
        v[i] = 1
        fam.append(tuple(v))
    fam.append(tuple(i % 2 for i in range(e)))
    fam.append(tuple((i + 1) % 2 for i in range(e)))
    return fam


# rand() policy: a callable (shape) -> list of arrays (families), settable by drivers
def _rand_family_default(shape) -> list[_np.ndarray]:
    k = int(_np.prod(shape)) if len(shape) else 1
    if k <= RAND_FULL_MAX:
        out = []
        for bits in itertools.product((0, 1), repeat=k):
            out.append(_np.array([HI if b else 0.0 for b in bits], dtype=float).reshape(shape))
        return out
    # bounded family: all-low, all-high, each single high, each single low, alternating
    fam = [_np.zeros(shape), _np.full(shape, HI)]
    for i in range(k):
        a = _np.zeros(k)
        a[i] = HI
        fam.append(a.reshape(shape))
    a = _np.array([HI if i % 2 else 0.0 for i in range(k)])
    fam.append(a.reshape(shape))
    fam.append((HI - a).reshape(shape))
    return fam


RAND_FAMILY = [_rand_family_default]
_RAND_CACHE: dict = {}


# ---------------------------------------------------------------- python `random` shim
class PyRandomShim:
    """stands in for the `random` module inside library modules"""

    def randint(self, a, b):
        return a + CH.choose(b - a + 1, "random.randint")

    def randrange(self, start, stop=None, step=1):
        if stop is None:
            start, stop = 0, start
        vals = range(start, stop, step)
        if len(vals) == 0:
            raise ValueError("empty range for randrange()")
        return vals[CH.choose(len(vals), "random.randrange")]

    def choice(self, seq):
        if len(seq) == 0:
            raise IndexError("Cannot choose from an empty sequence")
        return seq[CH.choose(len(seq), "random.choice")]

    def shuffle(self, x):
        fam = perm_family(len(x))
        p = fam[CH.choose(len(fam), "random.shuffle")]
        x[:] = [x[i] for i in p]

    def sample(self, population, k):
        population = list(population)
        n = len(population)
        if not 0 <= k <= n:
            raise ValueError("Sample larger than population or is negative")
        tot = math.perm(n, k)
        c = CH.choose(tot, "random.sample")
        rem = list(population)
        out = []
        for j in range(k):
            out.append(rem.pop(c % (n - j)))
            c //= n - j
        return out

    def random(self):
        return [0.0, HI][CH.choose(2, "random.random")]

    def uniform(self, a, b):
        return [a, a + (b - a) * HI][CH.choose(2, "random.uniform")]

    def seed(self, *a, **k):
        return None

    def Random(self, *a, **k):
        # a private random.Random(...) created inside the library is owned as well
        return self

    SystemRandom = Random

    def getstate(self):
        return _real_random.getstate()

    def setstate(self, s):
        return None

    def __getattr__(self, name):
        attr = getattr(_real_random, name)
        if callable(attr) and not isinstance(attr, type):
            def _unowned(*a, **k):
                CH.unowned_draws += 1
                return getattr(_fallback_py, name)(*a, **k)

            return _unowned
        return attr


# ---------------------------------------------------------------- numpy legacy global shim
class NpRandomShim:
    """stands in for `np.random` inside library modules"""

    def randint(self, low, high=None, size=None, dtype=int):
        if high is None:
            low, high = 0, low
        if size is None and _np.ndim(low) == 0 and _np.ndim(high) == 0:
            span = int(high) - int(low)
            if span <= 0:
                raise ValueError("low >= high")
            return int(low) + CH.choose(span, "np.random.randint")
        if size is None:
            shape = _np.broadcast(_np.asarray(low), _np.asarray(high)).shape
        else:
            shape = (size,) if isinstance(size, (int, _np.integer)) else tuple(size)
        highs = _np.broadcast_to(_np.asarray(high), shape)
        lows = _np.broadcast_to(_np.asarray(low), shape)
        spans = [int(h) - int(l) for h, l in zip(highs.ravel(), lows.ravel())]
        if any(s <= 0 for s in spans):
            raise ValueError("low >= high")
        tot = 1
        for s in spans:
            tot *= s
        c = CH.choose(tot, "np.random.randint[]")
        offs = _decode_mixed(c, spans)
        out = _np.array([int(l) + o for l, o in zip(lows.ravel(), offs)], dtype=int)
        return out.reshape(shape)

    def choice(self, a, size=None, replace=True, p=None):
        if p is not None and (size is not None):
            CH.unowned_draws += 1
            return _fallback.choice(a, size=size, replace=replace, p=p)
        if p is not None:
            p = [float(x) for x in _np.asarray(p).ravel()]
        if isinstance(a, (int, _np.integer)):
            n = int(a)
            pick = lambda k: k  # noqa: E731
            if n <= 0:
                raise ValueError("a must be greater than 0 unless no samples are taken")
        else:
            a = _np.asarray(a)
            n = len(a)
            pick = lambda k: a[k]  # noqa: E731
            if n == 0:
                raise ValueError("'a' cannot be empty unless no samples are taken")
        if size is None:
            if p is not None:
                if len(p) != n:
                    raise ValueError("'a' and 'p' must have same size")
                return pick(CH.choose(n, "np.random.choice[p]", weights=tuple(p)))
            return pick(CH.choose(n, "np.random.choice"))
        if not isinstance(size, (int, _np.integer)):
            CH.unowned_draws += 1
            return _fallback.choice(a, size=size, replace=replace)
        size = int(size)
        if replace:
            c = CH.choose(n**size, "np.random.choice[rep]")
            idx = _decode_mixed(c, [n] * size)
            return _np.array([pick(k) for k in idx])
        if size > n:
            raise ValueError("Cannot take a larger sample than population when 'replace=False'")
        tot = math.perm(n, size)
        c = CH.choose(tot, "np.random.choice[norep]")
        rem = list(range(n))
        out = []
        for j in range(size):
            out.append(pick(rem.pop(c % (n - j))))
            c //= n - j
        return _np.array(out)

    def rand(self, *shape):
        if len(shape) == 0:
            return [0.0, HI][CH.choose(2, "np.random.rand")]
        shape = tuple(int(s) for s in shape)
        ck = (RAND_FAMILY[0], shape)
        fam = _RAND_CACHE.get(ck)
        if fam is None:
            fam = _RAND_CACHE[ck] = RAND_FAMILY[0](shape)
        return fam[CH.choose(len(fam), "np.random.rand[]")].copy()

    def random(self, size=None):
        if size is None:
            return self.rand()
        return self.rand(*((size,) if isinstance(size, (int, _np.integer)) else tuple(size)))

    random_sample = random

    def shuffle(self, x):
        n = len(x)
        fam = perm_family(n)
        p = fam[CH.choose(len(fam), "np.random.shuffle")]
        if isinstance(x, _np.ndarray):
            x[...] = x[list(p)]
        else:
            x[:] = [x[i] for i in p]

    def permutation(self, x):
        if isinstance(x, (int, _np.integer)):
            x = _np.arange(x)
        else:
            x = _np.array(x)
        fam = perm_family(len(x))
        p = fam[CH.choose(len(fam), "np.random.permutation")]
        return x[list(p)]

    def default_rng(self, *a, **k):
        # a Generator created inside the library (np.random.default_rng(...)) is owned as well
        return _GEN

    def seed(self, *a, **k):
        # seeding is irrelevant under the shims, but keep the real global in step so that
        # code which inspects the real state afterwards is not disturbed
        return _np.random.seed(*a, **k)

    def __getattr__(self, name):
        attr = getattr(_np.random, name)
        if callable(attr) and not isinstance(attr, type) and name not in (
            "default_rng", "get_state", "set_state", "RandomState", "Generator",
        ):
            def _unowned(*a, **k):
                CH.unowned_draws += 1
                return getattr(_fallback, name)(*a, **k)

            return _unowned
        return attr


class NpProxy:
    """forwards everything to numpy except `.random`"""

    def __init__(self):
        self.random = NpRandomShim()

    def __getattr__(self, name):
        return getattr(_np, name)


# ---------------------------------------------------------------- numpy Generator shim
class GeneratorShim:
    """stands in for the module-level `numpy_rng` Generator"""

    def shuffle(self, x, axis=0):
        n = x.shape[axis] if isinstance(x, _np.ndarray) else len(x)
        fam = perm_family(n)
        p = fam[CH.choose(len(fam), "rng.shuffle")]
        if isinstance(x, _np.ndarray):
            x[...] = _np.take(x, list(p), axis=axis)
        else:
            x[:] = [x[i] for i in p]

    def permuted(self, x, axis=None, out=None):
        x = _np.asarray(x)
        if axis is None or x.ndim != 3 or axis != 1 or x.shape[1] != 2:
            # generic: one permutation family per slice is not needed by the tree; fall back
            CH.unowned_draws += 1
            return _np.random.default_rng(12345).permuted(x, axis=axis, out=out)
        e = x.shape[0]
        fam = flip_family(e)
        v = fam[CH.choose(len(fam), "rng.permuted")]
        res = x.copy()
        for i, f in enumerate(v):
            if f:
                res[i] = x[i, ::-1]
        if out is not None:
            out[...] = res
            return out
        return res

    def permutation(self, x, axis=0):
        if isinstance(x, (int, _np.integer)):
            x = _np.arange(x)
        x = _np.array(x)
        fam = perm_family(x.shape[axis])
        p = fam[CH.choose(len(fam), "rng.permutation")]
        return _np.take(x, list(p), axis=axis)

    def integers(self, low, high=None, size=None, dtype=int, endpoint=False):
        if high is None:
            low, high = 0, low
        if endpoint:
            high = _np.asarray(high) + 1
        return NpRandomShim().randint(low, high, size=size)

    def choice(self, a, size=None, replace=True, p=None, axis=0, shuffle=True):
        return NpRandomShim().choice(a, size=size, replace=replace, p=p)

    def random(self, size=None):
        return NpRandomShim().random(size)

    def __getattr__(self, name):
        def _unowned(*a, **k):
            CH.unowned_draws += 1
            return getattr(_np.random.default_rng(12345), name)(*a, **k)

        return _unowned


# ---------------------------------------------------------------- installation
LIB_MODULES = (
    "maze_dataset.generation.generators",
    "maze_dataset.maze.lattice_maze",
    "maze_dataset.token_utils",
    "maze_dataset.tokenization.maze_tokenizer",
    "maze_dataset.dataset.maze_dataset",
    "maze_dataset.utils",
)

_PY = PyRandomShim()
_NP = NpProxy()
_GEN = GeneratorShim()


@contextlib.contextmanager
def owned_rng(extra_modules=()):
    """bind the shims into the library's module globals; restore on exit"""
    import importlib

    saved = []
    try:
        for mn in tuple(LIB_MODULES) + tuple(extra_modules):
            try:
                mod = importlib.import_module(mn)
            except Exception:
                continue
            d = mod.__dict__
            for gname, val in list(d.items()):
                if val is _real_random:
                    saved.append((d, gname, val))
                    d[gname] = _PY
                elif val is _np:
                    saved.append((d, gname, val))
                    d[gname] = _NP
                elif val is _np.random:
                    saved.append((d, gname, val))
                    d[gname] = _NP.random
                elif isinstance(val, _np.random.Generator):
                    saved.append((d, gname, val))
                    d[gname] = _GEN
        yield CH
    finally:
        for d, gname, val in reversed(saved):
            d[gname] = val
        CH.state_hook = None


# ---------------------------------------------------------------- program-state capture
def _canon(v, depth=0):
    if isinstance(v, _np.ndarray):
        return ("nd", v.dtype.str, v.shape, v.tobytes())
    if isinstance(v, (bool, int, float, str, bytes, type(None))):
        return v
    if isinstance(v, (_np.integer, _np.bool_, _np.floating)):
        return v.item()
    if isinstance(v, (list, tuple)):
        return (type(v).__name__,) + tuple(_canon(x, depth + 1) for x in v)
    if isinstance(v, (set, frozenset)):
        return ("set", tuple(sorted((_canon(x, depth + 1) for x in v), key=repr)))
    if isinstance(v, dict):
        return ("dict", tuple(sorted(((repr(k), _canon(x, depth + 1)) for k, x in v.items()))))
    if isinstance(v, type) or callable(v) and hasattr(v, "__qualname__"):
        return ("fn", getattr(v, "__module__", ""), getattr(v, "__qualname__", repr(v)))
    if type(v).__module__ == "builtins" and type(v).__name__ == "module":
        return ("mod", v.__name__)
    if isinstance(v, (PyRandomShim, NpProxy, NpRandomShim, GeneratorShim)):
        return ("shim", type(v).__name__)
    if hasattr(v, "__dict__") and depth < 6:
        return ("obj", type(v).__qualname__, _canon(vars(v), depth + 1))
    return ("opaque", type(v).__qualname__, id(v))


class Opaque(Exception):
    pass


def _has_opaque(c) -> bool:
    if isinstance(c, tuple):
        if len(c) == 3 and c[0] == "opaque":
            return True
        return any(_has_opaque(x) for x in c)
    return False


_FOR_ITER_CACHE: dict = {}


def _in_for_loop(code, lasti) -> bool:
    """is instruction offset `lasti` inside a for-loop body (a live iterator on the value stack)?"""
    import dis

    rngs = _FOR_ITER_CACHE.get(code)
    if rngs is None:
        rngs = []
        for ins in dis.get_instructions(code):
            if ins.opname == "FOR_ITER":
                rngs.append((ins.offset, ins.argval))
        _FOR_ITER_CACHE[code] = rngs
    return any(a <= lasti < b for a, b in rngs)


def capture_state(root_names: tuple[str, ...], lib_marker: str):
    """walk frames from the shim up to (and including) the merge root; returns a hashable key
    or raises Opaque when merging would be unsound here."""
    f = sys._getframe(1)
    out = []
    found_root = False
    while f is not None:
        code = f.f_code
        fn = code.co_filename
        if lib_marker in fn and "/mzcheck/" not in fn:
            loc = f.f_locals
            items = tuple((k, _canon(loc[k])) for k in sorted(loc))
            if _has_opaque(items):
                raise Opaque(f"opaque local in {code.co_name}")
            if _in_for_loop(code, f.f_lasti):
                # iterator state lives on the value stack: it is determined by the loop variable only
                # for range/enumerate/list iteration; be conservative
                raise Opaque(f"choice point inside a for loop in {code.co_name}")
            out.append((code.co_name, f.f_lasti, items))
            if code.co_name in root_names:
                found_root = True
                break
        f = f.f_back
    if not found_root:
        raise Opaque("merge root not on the stack")
    return tuple(out)
