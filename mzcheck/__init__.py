"""mzcheck: bounded exhaustive exploration (model checking) of maze-dataset against /verif/properties.jsonl"""
